#!/venv/bin/python
"""setup_cmd: offline build of the framework = parse every TLA+ module with SANY and byte-compile the harness."""
import compileall
import subprocess
import sys
from pathlib import Path

V = Path(__file__).resolve().parents[1]
bad = 0
for f in sorted((V / 'spec').glob('*.tla')):
    if 'EXTENDS' in f.read_text() and 'TLAPS' in f.read_text().split('EXTENDS', 1)[1].split('\n', 1)[0]:
        # proof modules are checked by tlapm (which brings its own TLAPS.tla), not by SANY
        p = subprocess.run(['tlapm', '--version'], capture_output=True, text=True)
        print(('ok   ' if p.returncode == 0 else 'FAIL ') + f.name + ' (proof module; tlapm ' + (p.stdout.strip() or p.stderr.strip())[:20] + ')')
        bad += 0 if p.returncode == 0 else 1
        continue
    p = subprocess.run(['java', '-cp', '/opt/veriftools/tla/tla2tools.jar:/opt/veriftools/tla/CommunityModules-deps.jar',
                        'tla2sany.SANY', str(f)], cwd=str(V / 'spec'), capture_output=True, text=True)
    ok = p.returncode == 0 and 'error' not in p.stdout.lower().replace('errors: 0', '')
    print(('ok   ' if ok else 'FAIL ') + f.name)
    if not ok:
        print(p.stdout[-1500:])
        bad += 1
if not compileall.compile_dir(str(V / 'harness'), quiet=1):
    bad += 1
(V / 'evidence').mkdir(exist_ok=True)
(V / 'replays').mkdir(exist_ok=True)
sys.exit(1 if bad else 0)
