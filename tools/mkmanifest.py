#!/venv/bin/python
"""Regenerate MANIFEST.json from the table below and validate it against the schema."""
import json
import sys
from pathlib import Path

V = Path(__file__).resolve().parents[1]
PY = '/venv/bin/python'

CHECKS = {
    'C03': dict(
        text='TLC enumerates every site/inner-site history up to a bound and proves the transcribed event builder equals the declarative change-log (Leg M); every enumerated history is replayed through the public API (Leg A) and long random multi-atom histories are recorded call by call and judged by the trace spec (Leg B).',
        note='Trusted: TLC, the transcription of _calculate_transition_events in Sites.tla (bound to the code by Leg A/B), numpy/pandas. States are produced by the real site assignment from coordinates realising the history with >0.5 A margins; overlapping spheres (inner site != site, MC_Sites Mixed), 1331 sites, narrow integer dtypes and 33 200-frame tilings are included.',
        ref='DESIGN.md 8/C03', technique='TLA+ spec Sites.tla; TLC exhaustive model checking + exported-behaviour replay + trace validation (TraceSites.tla)'),
    'C04': dict(
        text='The jump classifier is transcribed branch by branch into TLA+ and checked by TLC against the declarative definition of jumps on every history up to a bound, for every minimal residence; the implementation is bound to the transcription by replaying every enumerated history and by trace validation of random long histories.',
        note='Trusted: TLC; the declarative DefJumps operator as the meaning of the property. Row order of Jumps.data is not compared. Overlapping spheres (inner site != site, MC_Sites Mixed), 1331 sites and 33 200-frame tilings are included.',
        ref='DESIGN.md 8/C04', technique='TLA+ spec Sites.tla (Step/Run vs DefJumps); TLC model checking + replay of TLC-exported behaviours + trace validation'),
    'C05': dict(
        text='Aggregations (matrix, counter, graph edges, occupancy, atom locations, rates, jump diffusivity) are TLA+ operators over the jump/event tables; TLC checks conservation on the model and judges every recorded API result, with squared minimum-image site distances computed exactly from the integer metric tensor.',
        note='Trusted: TLC; exact-lattice abstraction (sites on a /32 grid, integer metric tensor); scipy CODATA constants for alpha. Transitions.matrix() folding of no-site events is known finding D5.',
        ref='DESIGN.md 8/C05', technique='TLA+ spec Sites.tla + Lattice.tla; TLC model checking + trace validation with exact integer oracle'),
    'C01': dict(
        text='The in-place positions/displacements switches are transcribed into TLA+; TLC checks in-cell, same-modulo-1, minimum-image, telescoping and lattice-shift invariance for every raw one-coordinate trajectory over all shifts (MC_Wrap) and along every call sequence (MC_Trajectory); recorded executions with lattice-shifted and face-adjacent inputs in 6 cell families are judged by the trace spec, distances through the integer metric tensor.',
        note='Trusted: TLC; exact-lattice abstraction (/16 grid, face menu k/16+e); half-cell steps excluded as ambiguous. Generic floats only via rotated cells. Runs of 10 007 / 70 001 frames are held to their generating periodic steps (MC_Wrap lemmas StepsMinImage / Telescoping / ShiftInvariant).',
        ref='DESIGN.md 8/C01', technique='TLA+ spec Trajectory.tla; TLC model checking (MC_Wrap, MC_Trajectory) + trace validation (TraceTraj.tla)'),
    'C02': dict(
        text='Site assignment is specified on an exact integer lattice (metric tensor only, so orientation-free); TLC checks uniqueness / inner-in-outer / translation lemmas exhaustively on a small grid and judges the .states/.inner_states recorded from the real code for 6 cell families x 3 orientations x 4 radius modes with exact minimum-image distances.',
        note='Trusted: TLC integer arithmetic, exact-lattice abstraction (atoms and sites on a /64 grid; radii with r^2 N^2 away from integers). Generic non-grid floats are only reached through random rotations of the cell.',
        ref='DESIGN.md 8/C02', technique='TLA+ spec Sites.tla!AssignAtom + Lattice.tla; TLC model checking (MC_Assign) + trace validation (TraceAssign.tla) as exact oracle'),
    'C06': dict(
        text='MSD, distance from the start and tracer diffusivity are TLA+ operators over the integer unwrapped walk and the integer metric tensor; TLC checks lemmas on the model and, as an oracle, prints the exact numerators for harness-generated walks that cross faces many times in 6 cell families x 3 orientations; the floats of the real code must equal these rationals.',
        note='Trusted: TLC integer arithmetic; exact-lattice abstraction (/16 grid, |step| < half cell); FFT round-off bounds the comparison at relative 1e-8; scipy constants. Beyond a few thousand samples (3-9 million) the harness applies the two lemmas TLC checks on small instances (LinearMsd: uniform motion gives tau^2 |v|^2; MsdPerAtom: a row depends on its own atom only) with a tolerance derived from the round-off of the FFT algorithm.',
        ref='DESIGN.md 8/C06', technique='TLA+ spec Metrics.tla; TLC model checking (MC_Metrics) + TLC as exact oracle on recorded inputs (TraceMetrics.tla)'),
    'C07': dict(
        text='Every spec operator is a function of the integer metric tensor, fractional differences and index sets only (rotation invariance by construction; translation lemma model-checked). Each system is run through the real code in 5 representations (reference, rotated lattice, generic real translation through the faces, permuted atoms and sites, all together); all outputs are mapped back with the logged relabelling and judged by the same trace specs against the same integer inputs; volumes under whole-voxel shifts and path costs on rolled grids likewise.',
        note='Trusted: TLC; the trace specs of C02/C03/C04/C05/C08/C10/C11/C12; margins that make discrete answers stable under float perturbation.',
        ref='DESIGN.md 8/C07', technique='TLA+ specs Sites/Lattice/Rdf/Grid reused; TLC model checking of the translation lemma + trace validation of 5 representations per system against one spec expectation'),
    'C08': dict(
        text='Voxel binning is specified in integers (n = L div res, Bin(k,n,N) = floor(k n / N), Density as a set of (voxel,count)); TLC evaluates the round-trip and resolution-band lemmas over their whole small domains and judges recorded trajectory_to_volume results (6 cell families x 3 orientations, unequal axes, samples on and off voxel edges) voxel by voxel.',
        note='Trusted: TLC; integer cell lengths; L/res kept 0.02 from integers; on-edge samples only for power-of-two voxel counts.',
        ref='DESIGN.md 8/C08', technique='TLA+ spec Grid.tla (NVox, Bin, Density, RoundTrip, ResolutionBand); TLAPS proof of the two integer lemmas for all naturals (GridLemmas.tla) + TLC lemma evaluation + trace validation (TraceGrid.tla)'),
    'C09': dict(
        text='The free-energy node set and the inverse-image relation total*exp(-F/kT) = count are TLA+ predicates over integer density grids; TLC judges recorded get_free_energy / free_energy_graph results for finiteness, exact node set, recovery of every integer count, monotonicity and prohibitive unvisited voxels.',
        note='Trusted: TLC; ln is checked only through its inverse on integer counts (alpha with scipy k_B, relative 1e-6).',
        ref='DESIGN.md 8/C09', technique='TLA+ spec Grid.tla + TraceGrid.tla!VFree; trace validation with integer recovery'),
    'C10': dict(
        text='Paths are behaviours of a walker on the periodic voxel grid; TLC model-checks on every small grid that no walker behaviour beats the Bellman-Ford operator MinCost and that MinCost/MinPeak are attained, then uses these operators to judge recorded optimal_path (5 methods, both neighbourhoods) and optimal_percolating_path (7 direction sets, several peaks) results: validity, reported energies, minimal cost, image one cell away, best over peaks, wrapped/fractional sites.',
        note='Trusted: TLC; integer energies so that costs are exact; ties not compared. minmax-energy = dijkstra is known finding D7.',
        ref='DESIGN.md 8/C10', technique='TLA+ spec Grid.tla (walker, MinCost, MinPeak, Tile); TLC model checking (MC_Walker) + trace validation (TraceGrid.tla)'),
    'C11': dict(
        text='Pair histograms and their partition over site states are TLA+ operators over integer grid positions and the integer metric tensor; TLC checks on every bounded site history that the state classification is a partition with the stated meaning, and recomputes every minimum-image pair distance to judge recorded radial_distribution_between_species (both species orders) and Transitions.radial_distribution results bin by bin.',
        note='Trusted: TLC; exact-lattice abstraction (/64 grid); bin edges kept 2e-5 (relative) away from every attainable distance; shell normalisation removed by alpha. Long runs (1505 / 12 007 frames) rest on the tiling relation: K repeats of a short trajectory give K times its pair counts.',
        ref='DESIGN.md 8/C11', technique='TLA+ spec Rdf.tla (PairCount, StateClass, StateCounts); TLC model checking (MC_Sites InvStateClassPartition) + trace validation (TraceRdf.tla)'),
    'C12': dict(
        text='The sorted scan of collective.py is transcribed into TLA+ and TLC proves it equal to the declarative pair definition on every bounded jump table (negative control: the early exit originally coded is refuted); TLC-exported tables are replayed through Collective and random tables in real cells are judged by the trace spec with exact site distances.',
        note='Trusted: TLC; tables injected through the public Jumps(conversion_method=...) parameter; cut-offs kept 1e-4 away from site distances; cells periodic along some axes only are covered (DistSqPbc); tables of 1104 / 2304 jumps are K-fold repeats of a TraceColl-judged small table.',
        ref='DESIGN.md 8/C12', technique='TLA+ spec Sites.tla (CodePairs vs DeclPairs), MC_Coll with negative control; replay of TLC-exported tables + trace validation (TraceColl.tla)'),
    'C13': dict(
        text='Drift correction is an action of the Trajectory object-store spec; TLC checks on the model that the reference does not move and the first frame is kept along every call sequence, and judges recorded drift()/apply_drift_correction() calls of the real code (fixed/floating/none, str/list/set, Species/Element, raw/derived/already-corrected objects) against the exact corrected walk.',
        note='Trusted: TLC; steps below a quarter cell; means kept on the /192 grid (<= 4 reference atoms).',
        ref='DESIGN.md 8/C13', technique='TLA+ spec Trajectory.tla (CorrectedStepsTimesL, DriftClauses); TLC model checking + trace validation (TraceTraj.tla)'),
    'C14': dict(
        text='Exact rational cores of the derived metrics (density, conductivity, centre-of-mass diffusivity, Haven ratio, per-part values, amplitude segmentation) are TLA+ operators; TLC proves partition / sum / scaling / Haven=1 lemmas on every bounded speed series and serves as oracle for recorded inputs; scaling laws are metamorphic pairs judged against the exponent table.',
        note='Trusted: TLC; alpha removes CODATA constants (scipy) and atomic masses (pymatgen). Values of attempt frequency and 3-D vibration amplitude are not specified (periodogram / irrational sums): only exponents, partition and the exact 1-D amplitude list.',
        ref='DESIGN.md 8/C14', technique='TLA+ spec Metrics.tla (Segments/Amplitudes transcription, ComNum, Det3); TLC model checking (MC_Metrics) + TLC as exact oracle (TraceMetrics.tla) + metamorphic scaling pairs'),
    'C15': dict(
        text='gemdat.Trajectory is specified as an object store whose objects hold one coords array switched in place between positions and displacements; TLC explores every call sequence up to a bound (AbsStable: every live object keeps denoting its ghost), every model behaviour is replayed on the real class, and long random call sequences are validated event by event with the projection of every live object.',
        note='Trusted: TLC; projection of objects from public attributes (coords, coords_are_displacement, base_positions); constant-cell trajectories only.',
        ref='DESIGN.md 8/C15', technique='TLA+ spec Trajectory.tla; TLC model checking (MC_Trajectory + negative control) + replay of all exported behaviours + trace validation (TraceTraj.tla)'),
    'C16': dict(
        text='The loader / cache-file protocol is a TLA+ state machine with a crash action at every step and corruption of any cache file; TLC checks result correctness, completeness after return and key separation over all schedules (negative control: the original under-keyed cache name is refuted). Every model behaviour is replayed on from_vasprun (and a sample on from_lammps) with synthetic source files, and every byte prefix of the real cache image is enumerated as a fault.',
        note='Trusted: TLC; an interrupted pickle.dump leaves a byte prefix; synthetic vasprun.xml / LAMMPS files; from_gromacs (binary .tpr not synthesiseable offline) is covered by the model only.',
        ref='DESIGN.md 8/C16', technique='TLA+ spec DiskCache.tla; TLC model checking with crash/corrupt actions + negative control; replay of TLC-exported behaviours; byte-prefix fault enumeration'),
    'C17': dict(
        text='Symmetry-image collection is specified with integer operations (W, w) in the fractional basis and the integer metric tensor; TLC checks within-radius and distance preservation for every site/point position of small line and plane groups (and refutes the original +-1 re-imaging), and compares the multiset of points returned by ShapeAnalyzer for 7 space groups in compatible cells, 3 orientations and integer supercells with the spec.',
        note='Trusted: TLC; pymatgen space-group operations (asserted to be isometries of the metric tensor); radius below half the smallest perpendicular width. Sites a few 1e-7 off a special position need a grid beyond TLC\'s 32-bit integers: those cases are judged by a Python-integer mirror of the spec\'s membership rule (harness/shape_fine.py) that is cross-checked against TraceShape on every regular case of every run.',
        ref='DESIGN.md 8/C17', technique='TLA+ spec Shape.tla; TLC model checking (MC_Shape + negative control) + trace validation (TraceShape.tla) with multiset comparison'),
    'C18': dict(
        text='Matching, minimum-image bond vectors, images under orthogonal operations, linear maps and autocorrelation numerators are TLA+ operators over integer grid positions; TLC checks group-closure / transpose / invariance lemmas exhaustively for a point group on small vectors and prints the expected integers for harness-generated cluster trajectories, against which Orientations.vectors, lengths, normalize, symmetrize (20 point groups, both call forms), transform and autocorrelation are compared.',
        note='Trusted: TLC; pymatgen point-group matrices (asserted orthogonal); Cartesian clauses in an integer-matrix cubic cell with Pythagorean-quadruple bonds. vectors_spherical is judged by a float round trip in the harness (azimuth, elevation in degrees, length -> vector), not by TLC. The autocorrelation deviation (irfft length) is known finding D15.',
        ref='DESIGN.md 8/C18', technique='TLA+ spec Orient.tla; TLC model checking (MC_Orient) + TLC as exact oracle on recorded inputs (TraceOrient.tla)'),
    'C19': dict(
        text='TLC checks on every bounded history and every cut that part jumps are jumps of the whole; recorded split() results of the real code are validated by the trace spec for partition, exactly-once, re-basing and chronology with an offset witness.',
        note='Inner part boundaries are not constrained; unless trimmed to equal length, trajectory parts must follow one another without a gap from frame 0 to the last or next-to-last frame (every frames <= 130/400 x parts <= 16/40). Trusted: TLC, harness witness search (exhaustive, verified by TLC).',
        ref='DESIGN.md 8/C19', technique='TLA+ spec Sites.tla (InvPartsSubset) + trace validation of split()/rates() (TraceSites.tla)'),
    'C20': dict(
        text='weak_lru_cache is specified with object incarnations at reusable addresses, LRU eviction, drop and collection; TLC checks transparency, no cross-talk and no pinning over all interleavings and refutes three negative-control variants (id key, strong key, value referencing owner). Recorded lifecycles of a probe class with the real decorator, of real Transitions/Jumps/TrajectoryMetrics objects and of >128 live owners are validated event by event.',
        note='Trusted: TLC; CPython refcount/gc semantics observed through weakref.finalize; values compared structurally with floats up to 1e-9 relative (a memoised value may have been computed in the other internal representation of the trajectory); rejected arguments (exceptions) are outcomes too; cache hits are not observable and not constrained.',
        ref='DESIGN.md 8/C20', technique='TLA+ spec MemoCache.tla; TLC model checking + 3 negative controls; trace validation of recorded lifecycles (TraceMemo.tla)'),
}

PENDING_REASON = 'check not built yet in this round (specification module planned in DESIGN.md section 4); not claimed until its TLA+ spec and conformance leg exist'
NOT_APPLICABLE = {}

ENGINES = [
    {'name': 'tlc', 'path': '/opt/veriftools/tla/tla2tools.jar', 'serves_properties': sorted(CHECKS),
     'kind_free_text': 'TLC 1.8 explicit-state model checker: exhaustive MC_* instances, behaviour export (PrintT/ToJson), trace specs reading ndjson'},
    {'name': 'tlaps', 'path': '/opt/veriftools/tlapm', 'serves_properties': ['C08'],
     'kind_free_text': 'TLA+ proof system 1.6 (tlapm): unbounded proofs of the integer lemmas of C08 (spec/GridLemmas.tla), in addition to TLC'},
    {'name': 'harness', 'path': 'harness/', 'serves_properties': sorted(CHECKS),
     'kind_free_text': 'Python 3.12 (/venv) drivers of the public gemdat API, exact-lattice generators, abstraction functions, TLC runner'},
]


def main():
    props = [json.loads(l)['id'] for l in open(V / 'properties.jsonl')]
    checks = []
    for pid in props:
        if pid not in CHECKS:
            continue
        c = CHECKS[pid]
        checks.append({
            'property_id': pid,
            'quick_cmd': f'{PY} check.py {pid} --tier quick',
            'thorough_cmd': f'{PY} check.py {pid} --tier thorough',
            'evidence_file': f'evidence/{pid}.json',
            'replay_cmd_template': f'{PY} check.py {pid} --replay {{path}}',
            'engine': 'tlc',
            'level_claimed': {'category': 'model_checking', 'text': c['text'], 'design_ref': c['ref']},
            'level_note': c['note'],
            'technique': c['technique'],
        })
    na = [{'property_id': pid, 'reason': NOT_APPLICABLE.get(pid, PENDING_REASON)} for pid in props if pid not in CHECKS]
    man = {
        'version': 1,
        'setup_cmd': f'{PY} tools/setup.py',
        'hooks': {'guard': 'GEMDAT_VERIF', 'enable': 'none needed: all observables are public attributes; trace recording is done by an external wrapper layer in /verif/harness',
                  'baseline_off_cmd': 'cd /repo && /venv/bin/python -m pytest -ra -q -p no:cacheprovider --timeout=900 --continue-on-collection-errors',
                  'source_commits': [], 'add_only': True},
        'engines': ENGINES,
        'checks': checks,
        'notes': 'All checks: TLA+ specs under spec/, TLC via harness/core.py. GEMDAT_SRC=<dir>/src points a check at a scratch copy. fix: commits in /repo are listed in known_findings.json (fixed).',
        'not_applicable': na,
    }
    (V / 'MANIFEST.json').write_text(json.dumps(man, indent=1))
    try:
        import jsonschema
        jsonschema.validate(man, json.load(open('/root/.vp/MANIFEST.schema.json')))
        print('MANIFEST valid;', len(checks), 'checks,', len(na), 'not claimed')
    except ImportError:
        print('jsonschema not available; MANIFEST written unvalidated')


if __name__ == '__main__':
    main()
