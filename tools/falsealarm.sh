#!/bin/bash
# falsealarm.sh <seed> ...: run every quick check on the current tree with the given VERIF_SEED values; print anything that is not OK.
# Evidence files are rewritten by these runs; re-run the checks with the default seed afterwards before committing evidence.
cd /verif
for s in "$@"; do
  for i in 01 02 03 04 05 06 07 08 09 10 11 12 13 14 15 16 17 18 19 20; do echo "$s C$i"; done
done | xargs -P 4 -L 1 bash -c 'out=$(VERIF_SEED=$0 ./check.py $1 --tier quick 2>&1); rc=$?; echo "seed=$0 $1 rc=$rc $(echo "$out" | grep -e "^OK" -e "^VIOLATION" -e MACHINERY -e "first viol" | cut -c1-200 | tr "\n" " ")"' 2>&1 | grep -v conda | sort
