#!/bin/bash
# run every thorough check sequentially; print a one-line summary per property
for i in 01 02 03 04 05 06 07 08 09 10 11 12 13 14 15 16 17 18 19 20; do
  s=$(date +%s)
  out=$(/venv/bin/python check.py C$i --tier thorough 2>&1); rc=$?
  echo "C$i rc=$rc $(( $(date +%s) - s ))s $(echo "$out" | grep -e "^OK" -e "^VIOLATION" -e MACHINERY -e "first viol" | cut -c1-300 | tr '\n' ' ')"
done
