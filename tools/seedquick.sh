#!/bin/bash
# seedquick.sh <outdir> <Cxx> [tier]: run a check against a scratch copy of /repo/src with the seed's patch applied (GEMDAT_SRC)
out=$1; prop=$2; tier=${3:-quick}
d=/var/tmp/seedq-$$; rm -rf $d; mkdir -p $d; cp -r /repo/src $d/src
(cd $d && git init -q . >/dev/null 2>&1; patch -p1 -s < $out/patch.diff) || { echo "patch failed"; rm -rf $d; exit 2; }
cd ${VROOT:-/verif} && GEMDAT_SRC=$d/src ./check.py $prop --tier $tier 2>&1 | grep -e "^OK" -e "^VIOLATION" -e "first viol" -e MACH -e KNOWN | cut -c1-400
rm -rf $d
