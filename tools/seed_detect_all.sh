#!/bin/bash
# Official detection run: for every seeded change apply it to /repo, run the property's quick check, undo. Sequential.
cd /verif
for d in seeded/C*; do
  id=$(basename $d)
  /venv/bin/python tools/seedtest.py detect $d $id 2>&1 | grep -v conda | grep "^$id " | cut -c1-400
done
git -C /repo status --porcelain
