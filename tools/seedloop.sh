#!/bin/bash
# seedloop.sh Cxx ... : confirm each finished seed (scratch worktree) and run its property's quick check on a patched scratch copy
for id in "$@"; do
  out=${SEEDBASE:-/tmp/seed}/out_$id
  [ -f $out/patch.diff ] && [ -f $out/demo.py ] || { echo "$id: not ready"; continue; }
  echo "=== $id"
  /venv/bin/python /verif/tools/seedtest.py confirm $out 2>&1 | grep -e '"ok"' -e '"files"' -A1 | grep -v -e "^--" | tr -d '\n'; echo
  /verif/tools/seedquick.sh $out $id | grep -e "^OK" -e "^VIOLATION" -e "first viol" -e MACH | cut -c1-330
done
