#!/venv/bin/python
"""Confirm a seeded change and run checks against it.

  seedtest.py confirm <dir-with-patch.diff-and-demo.py>   -> scratch worktree outside /repo and /verif: demo passes on the clean tree,
                                                             patch applies, the 66 baseline tests still pass, demo fails with the patch
  seedtest.py detect <seeded/<id>> [Cxx ...] [--tier quick] -> git -C /repo apply patch; run the checks; git -C /repo checkout -- .
"""
import json
import os
import re
import shutil
import subprocess
import sys
from pathlib import Path

PY = '/venv/bin/python'
SCR = Path(os.environ.get('VERIF_SCRATCH', '/var/tmp')) / 'seedcheck'


def sh(cmd, cwd=None, env=None, timeout=3000):
    e = dict(os.environ)
    if env:
        e.update(env)
    p = subprocess.run(cmd, cwd=cwd, env=e, shell=isinstance(cmd, str), stdout=subprocess.PIPE, stderr=subprocess.STDOUT, text=True, timeout=timeout)
    return p.returncode, p.stdout


def passed_tests(wt):
    rc, out = sh(f'{PY} -m pytest -q -p no:cacheprovider --timeout=900 --continue-on-collection-errors -rA 2>&1 | grep -E "^PASSED" | sort', cwd=wt,
                 env={'PYTHONPATH': f'{wt}/src'})
    return set(out.split('\n')) - {''}


def confirm(d):
    d = Path(d).resolve()
    name = d.name
    wt = SCR / name
    SCR.mkdir(parents=True, exist_ok=True)
    if wt.exists():
        sh(f'git -C /repo worktree remove --force {wt}')
        shutil.rmtree(wt, ignore_errors=True)
    rc, out = sh(f'git -C /repo worktree add -q --detach {wt} HEAD')
    if rc:
        print(out)
        return False
    res = {'name': name}
    try:
        env = {'PYTHONPATH': f'{wt}/src'}
        base = passed_tests(wt)
        rc0, o0 = sh([PY, str(d / 'demo.py')], cwd=wt, env=env)
        res['demo_clean_exit'] = rc0
        rc, out = sh(f'git -C {wt} apply {d}/patch.diff')
        res['patch_applies'] = rc == 0
        if rc:
            print(out)
        rc, out = sh(f'git -C {wt} diff --stat')
        res['files'] = re.findall(r'(src/\S+)', out)
        after = passed_tests(wt)
        res['tests_passed_before'] = len(base)
        res['tests_passed_after'] = len(after)
        res['same_passing_set'] = base == after
        rc1, o1 = sh([PY, str(d / 'demo.py')], cwd=wt, env=env)
        res['demo_patched_exit'] = rc1
        res['ok'] = bool(res['patch_applies'] and rc0 == 0 and rc1 != 0 and base == after and len(base) == 66)
        res['demo_patched_tail'] = o1[-400:]
    finally:
        sh(f'git -C /repo worktree remove --force {wt}')
        shutil.rmtree(wt, ignore_errors=True)
    print(json.dumps(res, indent=1))
    return res


def detect(d, props, tier='quick'):
    d = Path(d).resolve()
    rc, out = sh('git -C /repo status --porcelain')
    if out.strip():
        print('refusing: /repo has uncommitted changes\n' + out)
        return None
    rc, out = sh(f'git -C /repo apply {d}/patch.diff')
    if rc:
        print('patch does not apply to /repo:\n' + out)
        return None
    results = {}
    try:
        for p in props:
            rc, out = sh([PY, 'check.py', p, '--tier', tier], cwd='/verif', env={'VERIF_SEED': os.environ.get('VERIF_SEED', '0')})
            m = re.search(r'first violation: (.{0,300})', out)
            results[p] = {'exit': rc, 'violation': bool(re.search(r'^VIOLATION property=', out, re.M)), 'clause': m.group(1) if m else ''}
            print(p, results[p])
    finally:
        sh('git -C /repo checkout -- .')
        rc, out = sh('git -C /repo status --porcelain')
        if out.strip():
            print('WARNING: /repo not clean after undo:\n' + out)
    return results


if __name__ == '__main__':
    if sys.argv[1] == 'confirm':
        r = confirm(sys.argv[2])
        sys.exit(0 if r and r.get('ok') else 1)
    elif sys.argv[1] == 'detect':
        args = [a for a in sys.argv[3:] if not a.startswith('--')]
        tier = 'thorough' if '--tier=thorough' in sys.argv else 'quick'
        r = detect(sys.argv[2], args, tier)
        sys.exit(0 if r is not None else 2)
