#!/bin/bash
# seed_matrix.sh <seed> ...: every seeded change under /verif/seeded applied to a scratch copy of /repo/src (GEMDAT_SRC), its property's
# quick check run with each given VERIF_SEED; prints one line per run, sorted; anything that is not VIOLATION is a miss.
cd /verif
export MPLBACKEND=Agg
for s in "$@"; do
  for d in seeded/C*; do id=$(basename $d); echo "$s ${id%%-*} /verif/$d"; done
done | xargs -P 4 -L 1 bash -c 'r=$(VERIF_SEED=$0 tools/seedquick.sh $2 $1 | grep -e "^OK" -e "^VIOL" -e MACH | cut -c1-50 | tr "\n" " "); echo "seed=$0 $(basename $2) $r"' 2>&1 | grep -v conda | sort
