----------------------------- MODULE MC_Metrics -----------------------------
(* Leg M for C06 / C14: lemmas on the exact cores over small domains.         *)
EXTENDS Metrics, TLC
CONSTANTS MaxLen, MaxSpeed, K
VARIABLES sp, mode
(* mode "amp": speed series of one atom; mode "walk": a 1-D walk of two atoms built from the same steps *)
Init == sp = <<>> /\ mode \in {"amp"}
Add == Len(sp) < MaxLen /\ \E x \in (-MaxSpeed)..MaxSpeed : sp' = Append(sp, x) /\ UNCHANGED mode
Spec == Init /\ [][Add]_<<sp, mode>>
NonEmpty == Len(sp) >= 1
(* C14: amplitudes partition the speeds and sum to the final distance (= sum of all speeds, speed[1] = d[1] - 0) *)
AmpPartition == NonEmpty => IsPartition(sp)
AmpSum == NonEmpty => SumSeq(Amplitudes(sp)) = SumSeq(sp)
(* scaling the cell by K scales every amplitude by K (signs unchanged) *)
AmpScale == NonEmpty => Amplitudes([i \in DOMAIN sp |-> K * sp[i]]) = [j \in DOMAIN Amplitudes(sp) |-> K * Amplitudes(sp)[j]]
(* walk lemmas: interpret sp as the steps of atom 1 along x; atom 2 makes the same steps *)
G1 == <<<<4, 1, 0>>, <<1, 5, 0>>, <<0, 0, 3>>>>
RECURSIVE Pref(_, _)
Pref(s, t) == IF t = 0 THEN 0 ELSE s[t] + Pref(s, t - 1)
W == [t \in 1..Len(sp) |-> <<<<Pref(sp, t) - sp[1], sp[t], 0>>, <<Pref(sp, t) - sp[1], sp[t], 0>>>>]
ScaleG(k2) == [i \in 1..3 |-> [j \in 1..3 |-> k2 * G1[i][j]]]
MsdLagZero == NonEmpty => \A a \in 1..2 : MsdNum(G1, W)[a][1] = 0
(* uniform motion: an atom moving by the same step v in every frame has MSD(tau) = tau^2 |v|^2 at every lag, for every length: *)
(* the closed form against which the FFT-based implementation is held at lengths no enumeration reaches (C06 at scale)         *)
LinearMsd == Len(sp) = 3 => \A T \in 1..(MaxLen + 2) :
                LET v == <<sp[1], sp[2], sp[3]>>
                    Wl == [t \in 1..T |-> <<<<(t - 1) * v[1], (t - 1) * v[2], (t - 1) * v[3]>>>>]
                IN \A tau \in 1..T : MsdNum(G1, Wl)[1][tau] = (T - (tau - 1)) * (tau - 1) * (tau - 1) * Sq(G1, v)
(* the MSD row of an atom is a function of that atom's own path: adding, removing or repeating other atoms changes nothing *)
MsdPerAtom == NonEmpty => LET W1 == [t \in 1..Len(sp) |-> <<W[t][1]>>]
                              W3 == [t \in 1..Len(sp) |-> <<W[t][2], <<t, 0, -t>>, W[t][1]>>]
                          IN MsdNum(G1, W)[1] = MsdNum(G1, W1)[1] /\ MsdNum(G1, W3)[3] = MsdNum(G1, W1)[1] /\ MsdNum(G1, W3)[1] = MsdNum(G1, W)[2]
(* identical motion: Haven ratio (TracerNum/A) * MassSum^2 / ComNum = 1, for any positive integer masses *)
HavenOne == NonEmpty => \A m \in {<<1, 1>>, <<2, 5>>, <<7, 3>>} : TracerNum(G1, W) * MassSum(m) * MassSum(m) = 2 * ComNum(G1, W, m)
(* scaling the cell by K (G by K^2) scales every diffusivity numerator by K^2, the volume^2 by K^6 *)
ScaleLaw == NonEmpty => /\ TracerNum(ScaleG(K * K), W) = K * K * TracerNum(G1, W)
                        /\ ComNum(ScaleG(K * K), W, <<2, 5>>) = K * K * ComNum(G1, W, <<2, 5>>)
                        /\ MsdNum(ScaleG(K * K), W) = [a \in 1..2 |-> [tau \in 1..Len(sp) |-> K * K * MsdNum(G1, W)[a][tau]]]
                        /\ Det3(ScaleG(K * K)) = K * K * K * K * K * K * Det3(G1)
=============================================================================
