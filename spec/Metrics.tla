------------------------------ MODULE Metrics ------------------------------
(* Exact rational cores of the trajectory metrics (C06, C14).  Input is the   *)
(* unwrapped walk w[t][a] (integer grid vectors, units 1/N, relative to the   *)
(* first frame) and the integer metric tensor G.  Every quantity is returned  *)
(* as an integer numerator over a denominator stated in the comment; physical *)
(* constants and float conversion live in the harness (alpha).                *)
EXTENDS Integers, Sequences, FiniteSets, Lattice

V3(v) == <<v[1], v[2], v[3]>>
Sq(G, v) == NormSq(G, V3(v))
NT(w) == Len(w)
NA(w) == Len(w[1])

(* squared distance from the start: Sq / N^2  [Angstrom^2] *)
DistSqTab(G, w) == [a \in 1..NA(w) |-> [t \in 1..NT(w) |-> Sq(G, w[t][a])]]

(* MSD of atom a at lag tau (0-based): MsdNum / (N^2 * (T - tau)) *)
RECURSIVE MsdSum(_, _, _, _, _)
MsdSum(G, w, a, tau, t) == IF t + tau > NT(w) THEN 0
                           ELSE Sq(G, VSub(V3(w[t + tau][a]), V3(w[t][a]))) + MsdSum(G, w, a, tau, t + 1)
MsdNum(G, w) == [a \in 1..NA(w) |-> [tau \in 1..NT(w) |-> MsdSum(G, w, a, tau - 1, 1)]]

(* tracer diffusivity: TracerNum / (N^2 * A * 2 d * T * dt)  [Angstrom^2 / s] *)
RECURSIVE SumA(_, _, _)
SumA(F(_), n, a) == IF a > n THEN 0 ELSE F(a) + SumA(F, n, a + 1)
TracerNum(G, w) == LET F(a) == Sq(G, w[NT(w)][a]) IN SumA(F, NA(w), 1)

(* centre of mass with integer weights m[a]: walk of the COM = ComVec / Sum(m); diffusivity numerator |ComVec|^2 / (Sum m)^2 *)
RECURSIVE ComVecR(_, _, _, _)
ComVecR(w, m, t, a) == IF a > NA(w) THEN VZero ELSE VAdd(VScale(m[a], V3(w[t][a])), ComVecR(w, m, t, a + 1))
ComNum(G, w, m) == Sq(G, ComVecR(w, m, NT(w), 1))
MassSum(m) == LET F(a) == m[a] IN SumA(F, Len(m), 1)
(* Haven ratio = tracer / com = (TracerNum / A) * MassSum^2 / ComNum *)

(* determinant of the metric tensor = volume^2 *)
Det3(G) == G[1][1] * (G[2][2] * G[3][3] - G[2][3] * G[3][2])
         - G[1][2] * (G[2][1] * G[3][3] - G[2][3] * G[3][1])
         + G[1][3] * (G[2][1] * G[3][2] - G[2][2] * G[3][1])

----------------------------------------------------------------------------
(* vibration amplitudes: transcription of TrajectoryMetrics.amplitudes for one atom.  speed: Seq of integers. *)
Sign(x) == IF x > 0 THEN 1 ELSE IF x < 0 THEN -1 ELSE 0
(* indices (0-based) where the sign differs from the next one, np.roll wrap-around included *)
FlipIdx(sp) == LET n == Len(sp) IN {i \in 0..(n - 1) : Sign(sp[i + 1]) # Sign(sp[((i + 1) % n) + 1])}
RECURSIVE SortedSeqOf(_)
SortedSeqOf(s) == IF s = {} THEN <<>> ELSE LET m == CHOOSE x \in s : \A y \in s : x <= y IN <<m>> \o SortedSeqOf(s \ {m})
(* splits[1:-1] + 1 *)
CutPoints(sp) == LET f == SortedSeqOf(FlipIdx(sp)) IN
                 IF Len(f) <= 2 THEN <<>> ELSE [k \in 1..(Len(f) - 2) |-> f[k + 1] + 1]
RECURSIVE SumSeq(_)
SumSeq(s) == IF s = <<>> THEN 0 ELSE Head(s) + SumSeq(Tail(s))
(* np.array_split(speed, cuts): segments [0:c1], [c1:c2], ..., [ck:] *)
Segments(sp) == LET c == CutPoints(sp) k == Len(c) IN
   [j \in 1..(k + 1) |-> SubSeq(sp, (IF j = 1 THEN 0 ELSE c[j - 1]) + 1, IF j = k + 1 THEN Len(sp) ELSE c[j])]
Amplitudes(sp) == LET sg == Segments(sp) IN [j \in DOMAIN sg |-> SumSeq(sg[j])]
(* property: the segments partition the speed series, so the amplitudes add up to the final distance *)
RECURSIVE ConcatAll(_)
ConcatAll(ss) == IF ss = <<>> THEN <<>> ELSE Head(ss) \o ConcatAll(Tail(ss))
IsPartition(sp) == ConcatAll(Segments(sp)) = sp
=============================================================================
