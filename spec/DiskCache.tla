----------------------------- MODULE DiskCache -----------------------------
(* The loader / cache-file protocol of Trajectory.from_vasprun / from_lammps  *)
(* / from_gromacs with crash points and corruption (C16).                     *)
(*                                                                            *)
(* An argument set is <<h, u>>: h stands for the arguments that entered the   *)
(* cache name in the code as originally written, u for result-relevant        *)
(* arguments that did not (type_mapping, atom_style, constant_lattice, ...).  *)
(* KeyAll = TRUE is the repaired key function; FALSE the original (negative   *)
(* control: TLC must refute ResultCorrect).                                   *)
(* One action per step of the code: exists? -> try read (any error falls      *)
(* through) -> parse source -> open(cache,'wb') truncates -> write chunks ->   *)
(* close -> return.  Crash is enabled at every non-idle step and leaves the    *)
(* file as it is; Corrupt replaces a cache file by garbage / an empty file.    *)
EXTENDS Naturals, Sequences, FiniteSets, TLC
CONSTANTS L,            \* chunks in a complete cache image
          KeyAll,
          MaxCycles
Args == {<<h, u>> : h \in {1, 2}, u \in {1, 2}}
Parse(a) == a                       \* the parsed trajectory depends on both components
Name(a) == IF KeyAll THEN a ELSE <<a[1], 0>>
Names == {Name(a) : a \in Args}
Absent == [st |-> "absent"]
Garbage == [st |-> "garbage"]
VARIABLES file, pc, args, wpos, result, cycles, hist
vars == <<file, pc, args, wpos, result, cycles, hist>>
Complete(f) == f.st = "data" /\ f.len = L
Init == /\ file = [n \in Names |-> Absent] /\ pc = "idle" /\ args = <<0, 0>> /\ wpos = 0
        /\ result = <<0, 0>> /\ cycles = 0 /\ hist = <<>>
Call(a) == /\ pc = "idle" /\ cycles < MaxCycles
           /\ args' = a /\ pc' = "exists" /\ cycles' = cycles + 1 /\ hist' = Append(hist, <<"Call", a>>)
           /\ UNCHANGED <<file, wpos, result>>
Exists == /\ pc = "exists"
          /\ pc' = (IF file[Name(args)].st = "absent" THEN "parse" ELSE "read")
          /\ UNCHANGED <<file, args, wpos, result, cycles, hist>>
(* pickle.load of a complete image succeeds; of a truncated / empty / garbage file raises and the loader falls back *)
Read == /\ pc = "read"
        /\ LET f == file[Name(args)] IN
             IF Complete(f) THEN result' = f.of /\ pc' = "done" ELSE result' = result /\ pc' = "parse"
        /\ UNCHANGED <<file, args, wpos, cycles, hist>>
DoParse == /\ pc = "parse" /\ result' = Parse(args) /\ pc' = "open"
           /\ UNCHANGED <<file, args, wpos, cycles, hist>>
Open == /\ pc = "open"
        /\ file' = [file EXCEPT ![Name(args)] = [st |-> "data", len |-> 0, of |-> result]]
        /\ wpos' = 0 /\ pc' = "write" /\ UNCHANGED <<args, result, cycles, hist>>
Write == /\ pc = "write" /\ wpos < L
         /\ file' = [file EXCEPT ![Name(args)].len = wpos + 1] /\ wpos' = wpos + 1
         /\ UNCHANGED <<pc, args, result, cycles, hist>>
Close == /\ pc = "write" /\ wpos = L /\ pc' = "done" /\ UNCHANGED <<file, args, wpos, result, cycles, hist>>
Return == /\ pc = "done" /\ pc' = "idle" /\ hist' = Append(hist, <<"Return", result>>)
          /\ UNCHANGED <<file, args, wpos, result, cycles>>
Crash == /\ pc \notin {"idle", "done"} /\ pc' = "idle"
         /\ hist' = Append(hist, <<"Crash", pc, wpos>>)
         /\ UNCHANGED <<file, args, wpos, result, cycles>>
Corrupt == /\ pc = "idle" /\ cycles < MaxCycles
           /\ \E n \in Names : file[n] # Garbage /\ file' = [file EXCEPT ![n] = Garbage] /\ hist' = Append(hist, <<"Corrupt", n>>)
           /\ cycles' = cycles + 1
           /\ UNCHANGED <<pc, args, wpos, result>>
Next == (\E a \in Args : Call(a)) \/ Exists \/ Read \/ DoParse \/ Open \/ Write \/ Close \/ Return \/ Crash \/ Corrupt
Spec == Init /\ [][Next]_vars

(* C16 *)
ResultCorrect == pc = "done" => result = Parse(args)
CompleteAfterReturn == pc = "done" => Complete(file[Name(args)]) /\ file[Name(args)].of = Parse(args)
(* a truncated, empty or garbage image is never what a completed call returns, and never survives a completed call *)
NoTornRead == pc = "done" => \A a \in Args : Name(a) = Name(args) => (file[Name(a)].st = "data" /\ file[Name(a)].len = L)
KeysSeparate == \A a, b \in Args : Parse(a) # Parse(b) => Name(a) # Name(b)
=============================================================================
