------------------------------ MODULE TraceRdf ------------------------------
(* Leg B for C11: recorded radial distributions judged against Rdf.tla.       *)
EXTENDS Rdf, TLC, Json, IOUtils, TLCExt
Log == ndJsonDeserialize(IOEnv.TRACE_FILE)
VARIABLE l
P3(pos) == [t \in DOMAIN pos |-> [a \in DOMAIN pos[t] |-> <<pos[t][a][1], pos[t][a][2], pos[t][a][3]>>]]
SetOf(s) == {s[i] : i \in DOMAIN s}
(* "Between": e.a1, e.a2 atom index lists (1-based), e.hist12 / e.hist21 observed raw counts per histogram bin (0..nb-1) *)
VBetween(e) ==
  LET pos == P3(e.pos)
      exp == PairCount(e.G, e.N, e.R, pos, SetOf(e.a1), SetOf(e.a2), e.thr)
      nb == Len(e.thr)
  IN IF \E k \in 0..(nb - 1) : e.hist12[k + 1] # exp[k] THEN "pair-histogram"
     ELSE IF e.hist21 # e.hist12 THEN "pair-counts-not-symmetric"
     ELSE "ok"
(* "States": e.F floating atom indices, e.hist observed site states, e.labels, e.symbols = [[code, [atom indices]], ...],      *)
(* e.rdfs = [[kind, la, lb, symbolcode, counts (digitize-right index 0..nb)], ...]                                            *)
(* digitize(right=True) index i holds distances in ((i-1) res, i res]: index 0 = exactly zero, index i = histogram bin i-1 *)
VStates(e) ==
  LET pos == P3(e.pos)
      nb == Len(e.thr)
      F == e.F
      symAtoms(c) == SetOf(e.symbols[CHOOSE x \in DOMAIN e.symbols : e.symbols[x][1] = c][2])
      zeroPairs(cls, c) == LET sc == StateCounts(e.G, e.N, e.R, pos, e.hist, e.labels, F, symAtoms(c) \cap SetOf(F), e.thr, cls) IN sc
      expIdx(cls, c) ==
         LET full == StateCounts(e.G, e.N, e.R, pos, e.hist, e.labels, F, symAtoms(c), e.thr, cls)
             \* self pairs (distance exactly 0) sit in digitize index 0; all other pairs of histogram bin k in index k + 1
             self == LET T == Len(pos) IN Cardinality({<<t, f>> \in (1..T) \X (1..Len(F)) : F[f] \in symAtoms(c) /\
                        StateClass(e.labels, e.hist[t][f][1], FFill([u \in 1..T |-> e.hist[u][f][1]])[t], BFill([u \in 1..T |-> e.hist[u][f][1]])[t]) = cls})
         IN [i \in 0..nb |-> IF i = 0 THEN self ELSE IF i = 1 THEN full[0] - self ELSE full[i - 1]]
      got(cls, c) == LET m == {x \in DOMAIN e.rdfs : <<e.rdfs[x][1], e.rdfs[x][2], e.rdfs[x][3]>> = cls /\ e.rdfs[x][4] = c}
                     IN IF m = {} THEN [i \in 0..nb |-> 0] ELSE [i \in 0..nb |-> e.rdfs[CHOOSE x \in m : TRUE][5][i + 1]]
      transit(c) == LET m == {x \in DOMAIN e.rdfs : e.rdfs[x][1] = 2 /\ e.rdfs[x][4] = c}
                        RECURSIVE SumOverM(_, _)
                        SumOverM(s, i) == IF s = {} THEN 0 ELSE LET x == CHOOSE y \in s : TRUE IN e.rdfs[x][5][i + 1] + SumOverM(s \ {x}, i)
                    IN [i \in 0..nb |-> SumOverM(m, i)]
      labs == SetOf(e.labels)
      syms == {e.symbols[x][1] : x \in DOMAIN e.symbols}
      classes == {<<0, la, la>> : la \in labs} \cup {<<1, la, lb>> : la \in labs, lb \in labs}
  IN IF \E c \in syms : \E la \in labs : got(<<0, la, la>>, c) # expIdx(<<0, la, la>>, c) THEN "at-site-state-counts"
     ELSE IF \E c \in syms : \E la \in labs, lb \in labs : got(<<1, la, lb>>, c) # expIdx(<<1, la, lb>>, c) THEN "transit-state-counts"
     ELSE IF \E c \in syms : transit(c) # expIdx(<<2, NOSITE, NOSITE>>, c) THEN "pairs-not-partitioned-over-states"
     ELSE IF \E x \in DOMAIN e.rdfs : e.rdfs[x][1] \in {0, 1} /\ <<e.rdfs[x][1], e.rdfs[x][2], e.rdfs[x][3]>> \notin classes THEN "unknown-state"
     ELSE "ok"
Verdict(e) == IF e.act = "Between" THEN VBetween(e) ELSE IF e.act = "States" THEN VStates(e) ELSE "unknown-action"
Init == l = 1
TStep == /\ l <= Len(Log)
         /\ PrintT(<<"V", l, Verdict(Log[l]), Log[l].act>>)
         /\ l' = l + 1
Spec == Init /\ [][TStep]_l
Consumed == TLCGet("stats").diameter - 1 = Len(Log)
=============================================================================
