------------------------------- MODULE Shape -------------------------------
(* Shape analysis (C17): collect, for a site s and every symmetry operation   *)
(* (W, w) of the space group (integer matrix W in the fractional basis,       *)
(* translation w in grid units), the input positions within the radius of     *)
(* the symmetry-equivalent site W s + w, map them back with the inverse       *)
(* operation and centre them on s.                                            *)
EXTENDS Integers, Sequences, FiniteSets, Lattice

MatVec(W, v) == <<W[1][1] * v[1] + W[1][2] * v[2] + W[1][3] * v[3],
                  W[2][1] * v[1] + W[2][2] * v[2] + W[2][3] * v[3],
                  W[3][1] * v[1] + W[3][2] * v[2] + W[3][3] * v[3]>>
MatMul(A, B) == [i \in 1..3 |-> [j \in 1..3 |-> A[i][1] * B[1][j] + A[i][2] * B[2][j] + A[i][3] * B[3][j]]]
Ident3 == <<<<1, 0, 0>>, <<0, 1, 0>>, <<0, 0, 1>>>>
Transpose(A) == [i \in 1..3 |-> [j \in 1..3 |-> A[j][i]]]
(* an operation is an isometry of the cell iff W^T G W = G *)
IsIsometry(G, W) == MatMul(Transpose(W), MatMul(G, W)) = G

Sym(op, s) == VAdd(MatVec(op.W, s), op.w)                      \* may lie far outside the unit cell
(* the point collected for position p (if within the radius), exact re-imaging: the image of p nearest to Sym(op, s) *)
Collected(G, N, R, op, s, p) ==
  LET sym == Sym(op, s)
      d == MinImage(G, VSub(p, sym), N, R)
      close == VAdd(sym, d)
  IN VSub(MatVec(op.Winv, VSub(close, op.w)), s)
(* deviation D12 (repaired): re-imaging by at most one cell per axis *)
OnceK(x, N) == IF 2 * x >= N THEN x - N ELSE IF 2 * x < -N THEN x + N ELSE x
CollectedOnce(G, N, R, op, s, p) ==
  LET sym == Sym(op, s)
      diff == VSub(p, sym)
      close == VAdd(sym, <<OnceK(diff[1], N), OnceK(diff[2], N), OnceK(diff[3], N)>>)
  IN VSub(MatVec(op.Winv, VSub(close, op.w)), s)
Within(G, N, R, op, s, p, thr) == DistSq(G, p, Sym(op, s), N, R) < thr
(* all collected points as a sequence of <<opIndex, pointIndex, vector>> *)
Pairs(G, N, R, ops, s, P, thr) == {<<o, i>> \in (1..Len(ops)) \X (1..Len(P)) : Within(G, N, R, ops[o], s, P[i], thr)}
BagOfVectors(G, N, R, ops, s, P, thr) ==
  LET pr == Pairs(G, N, R, ops, s, P, thr)
      vecs == [q \in pr |-> Collected(G, N, R, ops[q[1]], s, P[q[2]])]      \* evaluated once per pair
      vs == {vecs[q] : q \in pr}
  IN [v \in vs |-> Cardinality({q \in pr : vecs[q] = v})]
BagOfSeq(sq) == LET vs == {sq[i] : i \in DOMAIN sq} IN [v \in vs |-> Cardinality({i \in DOMAIN sq : sq[i] = v})]
=============================================================================
