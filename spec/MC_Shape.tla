------------------------------ MODULE MC_Shape ------------------------------
(* Leg M for C17: a line group (identity and inversion with translation 0 or  *)
(* N/2) and a 2-D group p4 on a square cell, every site and point position on *)
(* the N-grid, every radius below half the cell: with exact re-imaging each   *)
(* collected point is within the radius and at the same distance from the     *)
(* centre as its source from the equivalent site; the +-1 re-imaging of the   *)
(* original code (Exact = FALSE, negative control) is refuted -- the witness  *)
(* needs a site whose image leaves [-1/2, 3/2): site 0.9 under inversion.     *)
EXTENDS Shape, TLC
CONSTANTS N, Exact, Group
G1 == <<<<1, 0, 0>>, <<0, 1, 0>>, <<0, 0, 100>>>>
Op(W, w) == [W |-> W, Winv |-> CHOOSE X \in {W, Transpose(W)} : MatMul(W, X) = Ident3, w |-> w]
NegI == <<<<-1, 0, 0>>, <<0, -1, 0>>, <<0, 0, 1>>>>
Rot4 == <<<<0, -1, 0>>, <<1, 0, 0>>, <<0, 0, 1>>>>
Ops == IF Group = "line" THEN <<Op(Ident3, <<0, 0, 0>>), Op(<<<<-1, 0, 0>>, <<0, 1, 0>>, <<0, 0, 1>>>>, <<0, 0, 0>>),
                                Op(<<<<-1, 0, 0>>, <<0, 1, 0>>, <<0, 0, 1>>>>, <<N \div 2, 0, 0>>)>>
       ELSE <<Op(Ident3, <<0, 0, 0>>), Op(Rot4, <<0, 0, 0>>), Op(NegI, <<0, 0, 0>>), Op(MatMul(Rot4, NegI), <<0, 0, 0>>),
              Op(NegI, <<N \div 2, N \div 2, 0>>)>>
Pts == IF Group = "line" THEN {<<x, 0, 0>> : x \in 0..(N - 1)} ELSE {<<x, y, 0>> : x \in 0..(N - 1), y \in 0..(N - 1)}
VARIABLES s, p
Init == s = <<-1, 0, 0>> /\ p = <<-1, 0, 0>>
PickS == s[1] = -1 /\ \E q \in Pts : s' = q /\ UNCHANGED p
PickP == s[1] # -1 /\ p[1] = -1 /\ \E q \in Pts : p' = q /\ UNCHANGED s
Spec == Init /\ [][PickS \/ PickP]_<<s, p>>
Thrs == {1, 2, 4, 9, 16, 25, (N * N) \div 4}
Point(op) == IF Exact THEN Collected(G1, N, 1, op, s, p) ELSE CollectedOnce(G1, N, 1, op, s, p)
Ready == p[1] # -1
WithinRadius == Ready => \A o \in DOMAIN Ops : \A thr \in Thrs :
                  Within(G1, N, 1, Ops[o], s, p, thr) => NormSq(G1, Point(Ops[o])) < thr
DistancePreserved == Ready => \A o \in DOMAIN Ops :
                  Within(G1, N, 1, Ops[o], s, p, (N * N) \div 4) => NormSq(G1, Point(Ops[o])) = DistSq(G1, p, Sym(Ops[o], s), N, 1)
AllIsometries == \A o \in DOMAIN Ops : IsIsometry(G1, Ops[o].W) /\ MatMul(Ops[o].W, Ops[o].Winv) = Ident3
=============================================================================
