-------------------------------- MODULE Rdf --------------------------------
(* Radial distributions (C11) on the exact lattice.  A distance d lies in     *)
(* histogram bin i (0-based) iff i*res <= d < (i+1)*res; with squared integer *)
(* distances q = k^T G k this is #{j >= 1 : q >= thr[j]} where                *)
(* thr[j] = ceil(j^2 res^2 N^2) (the generator keeps every attainable q away  *)
(* from the real thresholds, so the open/closed side of an edge is moot).     *)
EXTENDS Sites

BinOf(q, thr) == Cardinality({j \in DOMAIN thr : q >= thr[j]})          \* Len(thr) = overflow (beyond the cut-off)
(* pair counts between atom index sets A1, A2 (1-based) over all frames: a function bin -> count, bins 0..Len(thr) *)
PairCount(G, N, R, pos, A1, A2, thr) ==
  LET trip == {<<t, i, j>> \in (1..Len(pos)) \X A1 \X A2 : TRUE}
      b(x) == BinOf(DistSq(G, pos[x[1]][x[2]], pos[x[1]][x[3]], N, R), thr)
      bins == [x \in trip |-> b(x)]
  IN [k \in 0..Len(thr) |-> Cardinality({x \in trip : bins[x] = k})]

(* state of a floating atom at a frame, from its current / previous / next site (label codes, NOSITE = none):      *)
(* <<0, X, X>> at a site labelled X; <<1, X, Y>> in transit from X to Y; <<2, -1, -1>> in transit with unknown end *)
LabelOf(labels, s) == IF s = NOSITE THEN NOSITE ELSE labels[s + 1]
StateClass(labels, cur, prev, nxt) ==
  IF cur # NOSITE THEN <<0, LabelOf(labels, cur), LabelOf(labels, cur)>>
  ELSE IF prev = NOSITE \/ nxt = NOSITE THEN <<2, NOSITE, NOSITE>>
  ELSE <<1, LabelOf(labels, prev), LabelOf(labels, nxt)>>
(* per-state pair counts for the floating atoms F (1-based atom indices into pos; column f of hist is floating atom f) *)
StateCounts(G, N, R, pos, hist, labels, F, A2, thr, cls) ==
  LET T == Len(pos)
      outer(f) == [t \in 1..T |-> hist[t][f][1]]
      prevs == [f \in 1..Len(F) |-> FFill(outer(f))]
      nexts == [f \in 1..Len(F) |-> BFill(outer(f))]
      clsOf(t, f) == StateClass(labels, hist[t][f][1], prevs[f][t], nexts[f][t])
      trip == {<<t, f, j>> \in (1..T) \X (1..Len(F)) \X A2 : clsOf(t, f) = cls}
      bins == [x \in trip |-> BinOf(DistSq(G, pos[x[1]][F[x[2]]], pos[x[1]][x[3]], N, R), thr)]
  IN [k \in 0..Len(thr) |-> Cardinality({x \in trip : bins[x] = k})]
=============================================================================
