----------------------------- MODULE TraceShape -----------------------------
(* Leg B for C17: recorded ShapeAnalyzer results judged against Shape.tla.    *)
EXTENDS Shape, TLC, Json, IOUtils, TLCExt
Log == ndJsonDeserialize(IOEnv.TRACE_FILE)
VARIABLE l
V3s(x) == <<x[1], x[2], x[3]>>
(* e: G N R thr ops[{W,Winv,w}] site P got (observed vectors, grid ints) dsq (observed squared distances * N^2, aligned with got) *)
VShape(e) ==
  LET ops == e.ops
      s == V3s(e.site)
      P == [i \in DOMAIN e.P |-> V3s(e.P[i])]
      got == [i \in DOMAIN e.got |-> V3s(e.got[i])]
      npairs == Cardinality(Pairs(e.G, e.N, e.R, ops, s, P, e.thr))
  IN IF e.inputChanged THEN "input-trajectory-altered-by-the-analysis"
     ELSE IF \E o \in DOMAIN ops : ~IsIsometry(e.G, ops[o].W) \/ MatMul(ops[o].W, ops[o].Winv) # Ident3 THEN "harness-operation-not-an-isometry"
     ELSE IF Len(got) # npairs THEN "count-of-collected-points"
     ELSE IF \E i \in DOMAIN got : NormSq(e.G, got[i]) >= e.thr THEN "point-outside-radius"
     ELSE IF BagOfSeq(got) # BagOfVectors(e.G, e.N, e.R, ops, s, P, e.thr) THEN "point-not-the-inverse-image-of-its-source"
     ELSE IF \E i \in DOMAIN got : e.dsq[i] # NormSq(e.G, got[i]) THEN "distances"
     ELSE "ok"
Init == l = 1
TStep == /\ l <= Len(Log)
         /\ PrintT(<<"V", l, VShape(Log[l]), "Shape">>)
         /\ l' = l + 1
Spec == Init /\ [][TStep]_l
Consumed == TLCGet("stats").diameter - 1 = Len(Log)
=============================================================================
