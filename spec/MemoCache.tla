----------------------------- MODULE MemoCache -----------------------------
(* gemdat.caching.weak_lru_cache with object lifecycle and address reuse      *)
(* (C20).  Objects are incarnations (oid) living at addresses of a small pool *)
(* so that CPython-style address reuse happens.  A cache entry is keyed by    *)
(* (weakref(self), args): hash = address at creation of the weakref, equality *)
(* = identity of the incarnation (a dead weakref equals only itself).         *)
(* KeyMode \in {"weakref" (the code), "id" (negative control: key on id(self)),*)
(*              "strong" (negative control: plain lru_cache, key holds self)} *)
(* PinningValue: the cached value holds a strong reference to its owner       *)
(* (Jumps.collective before the repair) -- negative control for NoPin.        *)
EXTENDS Naturals, Sequences, FiniteSets, TLC
CONSTANTS Addrs, MaxOid, ArgsSet, MaxSize, KeyMode, PinningValue
Free == [oid |-> 0]
VARIABLES heap, held, cache, nextOid, ret, lastcall
vars == <<heap, held, cache, nextOid, ret, lastcall>>
Live == {heap[a].oid : a \in {x \in Addrs : heap[x] # Free}}
AddrOf(o) == CHOOSE a \in Addrs : heap[a] # Free /\ heap[a].oid = o
F(o, x) == <<o, x>>                  \* every incarnation has distinct data, hence distinct uncached values
Init == /\ heap = [a \in Addrs |-> Free] /\ held = {} /\ cache = <<>> /\ nextOid = 1
        /\ ret = <<0, 0>> /\ lastcall = <<0, 0>>
Create(a) == /\ heap[a] = Free /\ nextOid <= MaxOid
             /\ heap' = [heap EXCEPT ![a] = [oid |-> nextOid]] /\ held' = held \cup {nextOid} /\ nextOid' = nextOid + 1
             /\ UNCHANGED <<cache, ret, lastcall>>
Match(e, o, x) == /\ e.args = x
                  /\ e.hash = AddrOf(o)
                  /\ (IF KeyMode = "id" THEN TRUE ELSE e.wr = o)
Hits(o, x) == {i \in 1..Len(cache) : Match(cache[i], o, x)}
Remove(s, i) == SubSeq(s, 1, i - 1) \o SubSeq(s, i + 1, Len(s))
Call(o, x) == /\ o \in held
              /\ lastcall' = <<o, x>>
              /\ IF Hits(o, x) # {}
                 THEN LET i == CHOOSE i \in Hits(o, x) : TRUE IN
                      /\ ret' = cache[i].value
                      /\ cache' = Append(Remove(cache, i), cache[i])
                 ELSE LET e == [wr |-> o, hash |-> AddrOf(o), args |-> x, value |-> F(o, x),
                                pins |-> (IF PinningValue THEN {o} ELSE {}) \cup (IF KeyMode = "strong" THEN {o} ELSE {})]
                          c == Append(cache, e) IN
                      /\ ret' = F(o, x)
                      /\ cache' = IF Len(c) > MaxSize THEN Tail(c) ELSE c
              /\ UNCHANGED <<heap, held, nextOid>>
Drop(o) == o \in held /\ held' = held \ {o} /\ UNCHANGED <<heap, cache, nextOid, ret, lastcall>>
Pinned == UNION {cache[i].pins : i \in 1..Len(cache)}
Collect == \E a \in Addrs : /\ heap[a] # Free /\ heap[a].oid \notin held /\ heap[a].oid \notin Pinned
                            /\ heap' = [heap EXCEPT ![a] = Free] /\ UNCHANGED <<held, cache, nextOid, ret, lastcall>>
Next == (\E a \in Addrs : Create(a)) \/ (\E o \in Live, x \in ArgsSet : Call(o, x)) \/ (\E o \in Live : Drop(o)) \/ Collect
Spec == Init /\ [][Next]_vars
(* C20 *)
Transparent == lastcall # <<0, 0>> => ret = F(lastcall[1], lastcall[2])
NoCrossTalk == lastcall # <<0, 0>> => ret[1] = lastcall[1]
NoPin == \A o \in Live : o \notin held => o \notin Pinned
=============================================================================
