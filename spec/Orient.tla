------------------------------- MODULE Orient -------------------------------
(* Orientation vectors (C18): bonds from centre atoms to their four matched   *)
(* satellites as minimum-image grid vectors, their images under orthogonal    *)
(* point-group operations, linear transforms, and autocorrelation numerators. *)
EXTENDS Integers, Sequences, FiniteSets, Lattice

MatVecO(W, v) == <<W[1][1] * v[1] + W[1][2] * v[2] + W[1][3] * v[3],
                   W[2][1] * v[1] + W[2][2] * v[2] + W[2][3] * v[3],
                   W[3][1] * v[1] + W[3][2] * v[2] + W[3][3] * v[3]>>
Dot3(u, v) == u[1] * v[1] + u[2] * v[2] + u[3] * v[3]
IsOrthogonal(W) == \A i \in 1..3 : \A j \in 1..3 : (W[1][i] * W[1][j] + W[2][i] * W[2][j] + W[3][i] * W[3][j]) = (IF i = j THEN 1 ELSE 0)

(* matching at frame 1: satellites closer than 1.5 x the smallest centre-satellite distance; the first four per centre *)
PairQ(G, N, R, cen, sat, c, s) == DistSq(G, sat[s], cen[c], N, R)
QMin(G, N, R, cen, sat) ==
  LET qs == {PairQ(G, N, R, cen, sat, c, s) : c \in DOMAIN cen, s \in DOMAIN sat} IN CHOOSE q \in qs : \A x \in qs : q <= x
RECURSIVE FirstK(_, _, _)
FirstK(cands, k, from) == IF k = 0 \/ from > Len(cands) THEN <<>>
                          ELSE IF cands[from] THEN <<from>> \o FirstK(cands, k - 1, from + 1) ELSE FirstK(cands, k, from + 1)
Match(G, N, R, cen, sat, c) ==
  LET qm == QMin(G, N, R, cen, sat)
      near == [s \in DOMAIN sat |-> 4 * PairQ(G, N, R, cen, sat, c, s) < 9 * qm]
  IN FirstK(near, 4, 1)
(* bonds in centre-major order: <<c, s>> pairs *)
RECURSIVE FlatPairs(_, _)
FlatPairs(ms, c) == IF c > Len(ms) THEN <<>> ELSE [k \in 1..Len(ms[c]) |-> <<c, ms[c][k]>>] \o FlatPairs(ms, c + 1)
BondPairs(G, N, R, cen1, sat1) == FlatPairs([c \in DOMAIN cen1 |-> Match(G, N, R, cen1, sat1, c)], 1)
(* minimum-image bond vector (fractional grid units) at frame t *)
Bond(G, N, R, cenT, satT, pr) == MinImage(G, VSub(satT[pr[2]], cenT[pr[1]]), N, R)
Bonds(G, N, R, cen, sat) ==
  LET prs == BondPairs(G, N, R, cen[1], sat[1])
  IN [t \in DOMAIN cen |-> [b \in DOMAIN prs |-> Bond(G, N, R, cen[t], sat[t], prs[b])]]
LenSq(G, bonds) == [t \in DOMAIN bonds |-> [b \in DOMAIN bonds[t] |-> NormSq(G, bonds[t][b])]]

(* Cartesian clauses (integer vectors): images under operations, linear map, autocorrelation numerators *)
SymImages(vecs, ops) == [t \in DOMAIN vecs |-> [x \in 1..(Len(vecs[t]) * Len(ops)) |->
     MatVecO(ops[((x - 1) % Len(ops)) + 1], vecs[t][((x - 1) \div Len(ops)) + 1])]]
Transformed(vecs, A) == [t \in DOMAIN vecs |-> [b \in DOMAIN vecs[t] |-> MatVecO(A, vecs[t][b])]]
RECURSIVE AcfSum(_, _, _, _)
AcfSum(vecs, b, tau, t) == IF t + tau > Len(vecs) THEN 0 ELSE Dot3(vecs[t][b], vecs[t + tau][b]) + AcfSum(vecs, b, tau, t + 1)
(* acf[b][tau] = (AcfNum[b][tau] / (T - tau)) / (AcfNum[b][0] / T) *)
AcfNum(vecs) == [b \in DOMAIN vecs[1] |-> [tau \in 1..Len(vecs) |-> AcfSum(vecs, b, tau - 1, 1)]]
=============================================================================
