---------------------------- MODULE MC_DiskCache ----------------------------
EXTENDS DiskCache, Json
CONSTANT DoExport
(* hide the history unless behaviours are exported for replay *)
View == IF DoExport THEN vars ELSE <<file, pc, args, wpos, result, cycles>>
Export == (DoExport /\ pc = "idle" /\ Len(hist) > 0) => PrintT(ToJson([hist |-> hist]))
=============================================================================
