----------------------------- MODULE TraceMemo -----------------------------
(* Leg B for C20: recorded lifecycles of objects with memoised methods (a     *)
(* probe class decorated with the real weak_lru_cache, and real Transitions / *)
(* Jumps / Collective / TrajectoryMetrics objects).  State: which             *)
(* incarnations exist, which the user holds, parent links (a Jumps holds its  *)
(* Transitions), which have been finalised, and for every value tag the       *)
(* incarnation whose uncached recomputation produced it.  Whether a call was  *)
(* a cache hit is NOT observable and not constrained; only the returned value *)
(* and collectability are.                                                    *)
EXTENDS Integers, Sequences, FiniteSets, TLC, Json, IOUtils, TLCExt
Log == ndJsonDeserialize(IOEnv.TRACE_FILE)
VARIABLES l, st, bid
Fresh == [created |-> {}, held |-> {}, dead |-> {}, parents |-> <<>>, owner |-> <<>>, addr |-> <<>>]
(* parents: function oid -> set of oids, kept as a sequence indexed by oid (oids are 1,2,3,... per behaviour) *)
RECURSIVE Reach(_, _)
Reach(s, set) == LET nxt == set \cup UNION {s.parents[o] : o \in set} IN IF nxt = set THEN set ELSE Reach(s, nxt)
Apply(s, e) ==
  CASE e.act = "Create" ->
         <<IF e.o # Len(s.parents) + 1 THEN "harness-oid-order" ELSE "ok",
           [s EXCEPT !.created = @ \cup {e.o}, !.held = @ \cup {e.o}, !.parents = Append(@, {e.parents[k] : k \in DOMAIN e.parents}),
                     !.addr = Append(@, e.addr)]>>
    [] e.act = "Call" ->
         (* e.rtag: tag of the returned value; e.ftag: tag of the uncached recomputation on the same object *)
         LET known == {k \in DOMAIN s.owner : s.owner[k][1] = e.rtag}
             foreign == \E k \in known : s.owner[k][2] # e.o
         IN <<IF e.o \notin s.held THEN "harness-call-on-dropped-object"
              ELSE IF e.rtag = e.ftag THEN "ok"
              ELSE IF foreign THEN "result-of-another-object-returned"
              ELSE "cached-value-differs-from-recomputation",
              [s EXCEPT !.owner = Append(@, <<e.ftag, e.o>>)]>>
    [] e.act = "Drop" -> <<"ok", [s EXCEPT !.held = @ \ {e.o}]>>
    [] e.act = "Collect" ->
         LET deadnow == s.dead \cup {e.dead[k] : k \in DOMAIN e.dead}
             alive == Reach(s, s.held)
             leaked == (s.created \ alive) \ deadnow
         IN <<IF \E o \in deadnow : o \in alive THEN "harness-live-object-finalised"
              ELSE IF leaked # {} THEN "object-kept-alive-after-drop"
              ELSE "ok", [s EXCEPT !.dead = deadnow]>>
    [] OTHER -> <<"unknown-action", s>>
Init == l = 1 /\ st = Fresh /\ bid = -1
TStep == /\ l <= Len(Log)
         /\ LET e == Log[l]
                s0 == IF e.b # bid THEN Fresh ELSE st
                r == Apply(s0, e)
            IN /\ PrintT(<<"V", l, r[1], e.act>>)
               /\ st' = r[2]
               /\ bid' = e.b
         /\ l' = l + 1
Spec == Init /\ [][TStep]_<<l, st, bid>>
Consumed == TLCGet("stats").diameter - 1 = Len(Log)
=============================================================================
