------------------------------ MODULE MC_Sites ------------------------------
(* Leg M for C03 C04 C05 C19: every site/inner-site history up to length T    *)
(* over S sites and NAt atoms, built one frame at a time.                     *)
EXTENDS Sites, TLC, Json
CONSTANTS T, S, NAt, MaxRes, DoExport, Mixed
SiteIds == 0..(S - 1)
(* Mixed: overlapping site spheres (an explicit radius above half a site separation): the atom is recorded at one site while  *)
(* inside the inner sphere of another.  Outside C02's domain (NonOverlap) but a legal input of everything downstream.          *)
AtomStates == {<<NOSITE, NOSITE>>} \cup {<<s, NOSITE>> : s \in SiteIds} \cup {<<s, s>> : s \in SiteIds}
              \cup (IF Mixed THEN {<<s, u>> : s \in SiteIds, u \in SiteIds} ELSE {})
Frames == [1..NAt -> AtomStates]
VARIABLE hist
Init == hist = <<>>
Tick == /\ Len(hist) < T
        /\ \E f \in Frames : hist' = Append(hist, f)
Spec == Init /\ [][Tick]_hist

Atoms == 1..NAt
H(a) == Col(hist, a)

(* ---- C03 ---- *)
InvEventsAreChanges == Len(hist) >= 1 => \A a \in Atoms : EvTimes(H(a)) = Changes(H(a))
InvReplay == Len(hist) >= 1 => \A a \in Atoms : Replay(H(a)[1], EvRowsAtom(H(a), a - 1), Len(hist)) = H(a)
InvRowsReal == Len(hist) >= 1 => \A a \in Atoms : LET rows == EvRowsAtom(H(a), a - 1) IN
                  \A k \in DOMAIN rows : /\ <<rows[k][2], rows[k][4]>> = H(a)[rows[k][6] + 1]
                                         /\ <<rows[k][3], rows[k][5]>> = H(a)[rows[k][6] + 2]
                                         /\ <<rows[k][2], rows[k][4]>> # <<rows[k][3], rows[k][5]>>
InvFill == Len(hist) >= 1 => \A a \in Atoms : LET x == [t \in 1..Len(hist) |-> H(a)[t][1]] IN
                  /\ FFill(x) = [t \in 1..Len(x) |-> PrevSite(x, t)]
                  /\ BFill(x) = [t \in 1..Len(x) |-> NextSite(x, t)]

(* ---- C11: every frame of every atom falls in exactly one state class (at X / X->Y / transit with unknown end) ---- *)
ClassOf(a, t) == LET x == [u \in 1..Len(hist) |-> H(a)[u][1]] IN
                 IF x[t] # NOSITE THEN <<0, x[t], x[t]>>
                 ELSE IF FFill(x)[t] = NOSITE \/ BFill(x)[t] = NOSITE THEN <<2, NOSITE, NOSITE>>
                 ELSE <<1, FFill(x)[t], BFill(x)[t]>>
InvStateClassPartition == Len(hist) >= 1 => \A a \in Atoms : \A t \in 1..Len(hist) :
     LET x == [q \in 1..Len(hist) |-> H(a)[q][1]] c == ClassOf(a, t) IN
       /\ (c[1] = 0 <=> x[t] # NOSITE)
       /\ (c[1] = 1 => /\ x[t] = NOSITE /\ \E u \in 1..(t - 1) : x[u] = c[2] /\ \A w \in (u + 1)..t : x[w] = NOSITE
                        /\ \E u2 \in (t + 1)..Len(hist) : x[u2] = c[3] /\ \A w2 \in t..(u2 - 1) : x[w2] = NOSITE)
       /\ (c[1] = 2 => x[t] = NOSITE /\ ((\A u3 \in 1..t : x[u3] = NOSITE) \/ (\A u4 \in t..Len(hist) : x[u4] = NOSITE)))

(* ---- C04 ---- *)
J(a, m) == SeqToSet(JumpRowsAtom(EvRowsAtom(H(a), a - 1), m))
InvDefScan == \A a \in Atoms : DefJumps(H(a), a - 1) = DefJumpsSet(H(a), a - 1)
InvDefault == \A a \in Atoms : AllInner(H(a)) => J(a, 0) = DefJumps(H(a), a - 1)
InvSubset == \A a \in Atoms : \A m \in 0..MaxRes :
                 /\ {JKey(j) : j \in J(a, m)} \subseteq {JKey(j) : j \in DefJumps(H(a), a - 1)}
                 /\ \A j \in J(a, m) : Consistent(H(a), j)
InvMono == \A a \in Atoms : \A m \in 0..(MaxRes - 1) : J(a, m + 1) \subseteq J(a, m)
InvNoDup == \A a \in Atoms : \A m \in 0..MaxRes : Cardinality(J(a, m)) = Len(JumpRowsAtom(EvRowsAtom(H(a), a - 1), m))

(* ---- C05 ---- *)
AllJ(m) == JumpRowsOfHist(hist, m)
InvMatrix == Len(hist) >= 1 => \A m \in 0..MaxRes : LET M == Matrix(AllJ(m), S) IN
                 /\ MatrixSum(M) = Len(AllJ(m))
                 /\ \A i \in 1..S : M[i][i] = 0
                 /\ {<<i - 1, j - 1>> : <<i, j>> \in {p \in (1..S) \X (1..S) : M[p[1]][p[2]] > 0}} = EdgeSet(AllJ(m))
(* the transition matrix over events, had it a NOSITE row, conserves too; the folded one (D5) does not *)
InvFoldedDiffers == TRUE

(* ---- C19: jumps of a time part are jumps of the whole (any cut time c) ---- *)
InvPartsSubset == Len(hist) >= 2 => \A a \in Atoms : \A c \in 1..(Len(hist) - 1) : \A m \in 0..MaxRes :
   LET rows == EvRowsAtom(H(a), a - 1)
       p1 == SelectSeq(rows, LAMBDA r : r[6] < c)
       p2raw == SelectSeq(rows, LAMBDA r : r[6] >= c)
       p2 == [k \in DOMAIN p2raw |-> [p2raw[k] EXCEPT ![6] = @ - c]]
       j1 == SeqToSet(JumpRowsAtom(p1, m))
       j2 == {<<j[1], j[2], j[3], j[4] + c, j[5] + c>> : j \in SeqToSet(JumpRowsAtom(p2, m))}
   IN /\ j1 \subseteq J(a, m) /\ j2 \subseteq J(a, m)
      /\ Cardinality(j1) + Cardinality(j2) <= Cardinality(J(a, m))

(* ---- export for Leg A: one JSON line per history of length >= 2 ---- *)
ExportAll == (DoExport /\ Len(hist) >= 2) =>
            PrintT(ToJson([hist |-> hist,
                           events |-> EvRows(hist),
                           jumps |-> [m \in 1..(MaxRes + 1) |-> JumpRowsOfHist(hist, m - 1)],
                           prev |-> [a \in Atoms |-> FFill([t \in 1..Len(hist) |-> H(a)[t][1]])],
                           next |-> [a \in Atoms |-> BFill([t \in 1..Len(hist) |-> H(a)[t][1]])]]))
=============================================================================
