----------------------------- MODULE TraceTraj -----------------------------
(* Leg B for C15 C01 C13 (and the object-store side of C19/C06): validates    *)
(* recorded sequences of public gemdat.Trajectory calls.  The trace state is  *)
(* the ABSTRACT store: for every object created so far, the wrapped positions *)
(* it denotes (ghost), species codes, time step, metadata code.  After every  *)
(* call the harness logs (i) the abstract projection of the returned value    *)
(* and (ii) the abstract projection of EVERY live object, computed from its   *)
(* public attributes without calling any method.  The verdict names the first *)
(* failing clause.  Nothing here depends on the hidden representation.        *)
EXTENDS Trajectory, Lattice, TLC, Json, IOUtils, TLCExt

Log == ndJsonDeserialize(IOEnv.TRACE_FILE)
VARIABLES l, st, bid
vars == <<l, st, bid>>
Fresh == [ghost |-> <<>>, N |-> 1, G |-> <<>>]

Obj(pos, sp, dt, meta, lat) == [pos |-> pos, sp |-> sp, dt |-> dt, meta |-> meta, lat |-> lat]
SameStore(g, objs) == /\ Len(g) = Len(objs)
                      /\ \A i \in 1..Len(g) : objs[i].dead \/ (g[i].pos = objs[i].pos /\ g[i].sp = objs[i].sp
                                                               /\ g[i].dt = objs[i].dt /\ g[i].meta = objs[i].meta /\ g[i].lat = objs[i].lat)
FirstBad(g, objs) == IF Len(g) # Len(objs) THEN "live-object-count"
                     ELSE IF \E i \in 1..Len(g) : ~objs[i].dead /\ g[i].sp # objs[i].sp THEN "object-species-changed"
                     ELSE IF \E i \in 1..Len(g) : ~objs[i].dead /\ (g[i].dt # objs[i].dt \/ g[i].meta # objs[i].meta) THEN "object-timestep-or-metadata-changed"
                     ELSE IF \E i \in 1..Len(g) : ~objs[i].dead /\ g[i].lat # objs[i].lat THEN "object-lattice-changed"
                     ELSE IF \E i \in 1..Len(g) : ~objs[i].dead /\ g[i].pos # objs[i].pos THEN "object-data-changed"
                     ELSE "ok"

NormSq3(G, v) == NormSq(G, <<v[1], v[2], v[3]>>)

(* each V* returns <<verdict for the returned value, new ghost store>> *)
Apply(s, e) ==
  LET g == s.ghost  N == s.N IN
  CASE e.act = "Construct" ->
         <<"ok", Append(g, Obj(WrapC(e.c, N), e.sp, e.dt, e.meta, e.lat))>>
    [] e.act = "ConstructDisp" ->
         <<"ok", Append(g, Obj(WrapC([t \in DOMAIN e.d |-> FPlus(e.base, Cum(e.d)[t])], N), e.sp, e.dt, e.meta, e.lat))>>
    [] e.act = "GetPos" ->
         <<IF ~e.incell THEN "positions-not-in-half-open-cell"
           ELSE IF e.ret # g[e.i].pos THEN "positions-value" ELSE "ok", g>>
    [] e.act = "Frame" ->
         (* one frame as a Structure (traj[t], get_structure(t), iteration): the atoms of that frame, in whatever representation the source is *)
         <<IF e.t + 1 \notin DOMAIN g[e.i].pos THEN "frame-index"
           ELSE IF e.ret # g[e.i].pos[e.t + 1] THEN "frame-structure-coordinates"
           ELSE IF e.sp # g[e.i].sp THEN "frame-structure-species" ELSE "ok", g>>
    [] e.act = "GetDisp" ->
         <<IF ~NoHalfStep(g[e.i].pos, N) THEN "ok"
           ELSE IF e.ret # Steps(g[e.i].pos, N) THEN "displacements-not-minimum-image-steps"
           ELSE IF ~Telescopes(g[e.i].pos, e.ret, N) THEN "displacements-do-not-telescope" ELSE "ok", g>>
    [] e.act = "CumDisp" ->
         <<IF NoHalfStep(g[e.i].pos, N) /\ e.ret # Walk(g[e.i].pos, N) THEN "cumulative-displacements" ELSE "ok", g>>
    [] e.act = "Dist" ->
         LET w == Walk(g[e.i].pos, N) IN
         <<IF NoHalfStep(g[e.i].pos, N) /\ e.ret # [a \in 1..Len(w[1]) |-> [t \in 1..Len(w) |-> NormSq3(s.G, w[t][a])]] THEN "distance-from-base" ELSE "ok", g>>
    [] e.act \in {"Slice", "IndexList"} ->
         <<"ok", Append(g, [g[e.i] EXCEPT !.pos = Sel(g[e.i].pos, [k \in DOMAIN e.idx |-> e.idx[k] + 1])])>>
    [] e.act = "Filter" ->
         <<"ok", Append(g, [g[e.i] EXCEPT !.pos = SelAtoms(g[e.i].pos, [k \in DOMAIN e.keep |-> e.keep[k] + 1]),
                                         !.sp = [k \in DOMAIN e.keep |-> g[e.i].sp[e.keep[k] + 1]]])>>
    [] e.act = "Split" ->
         (* e.ranges: witness frame ranges <<start, stop>> (0-based, half-open) found by the harness *)
         LET T == Len(g[e.i].pos)
             okr(p) == e.ranges[p][1] >= 0 /\ e.ranges[p][2] <= T /\ e.ranges[p][1] < e.ranges[p][2]
             (* a part that is no frame range of the source (reported below) enters the store as observed, so that later steps are still judged *)
             parts == [p \in DOMAIN e.ranges |-> IF okr(p) THEN [g[e.i] EXCEPT !.pos = SubSeq(g[e.i].pos, e.ranges[p][1] + 1, e.ranges[p][2])]
                                                 ELSE [g[e.i] EXCEPT !.pos = e.objs[Len(g) + p].pos]]
         IN <<IF Len(e.ranges) # e.k THEN "split-part-count"
              ELSE IF \E p \in DOMAIN e.ranges : e.ranges[p][1] < 0 \/ e.ranges[p][2] > T \/ e.ranges[p][1] >= e.ranges[p][2] THEN "split-not-a-frame-range"
              ELSE IF \E p \in 1..(Len(e.ranges) - 1) : e.ranges[p][2] > e.ranges[p + 1][1] THEN "split-overlap-or-order"
              ELSE IF e.equal /\ \E p \in DOMAIN e.ranges : e.ranges[p][2] - e.ranges[p][1] # e.ranges[1][2] - e.ranges[1][1] THEN "split-not-equal-length"
              ELSE IF ~e.equal /\ (e.ranges[1][1] # 0 \/ (\E p \in 1..(Len(e.ranges) - 1) : e.ranges[p][2] # e.ranges[p + 1][1])
                                    \/ e.ranges[Len(e.ranges)][2] \notin {T - 1, T}) THEN "split-parts-do-not-tile-the-source"
              ELSE "ok", g \o parts>>
    [] e.act = "Extend" ->
         <<"ok", [g EXCEPT ![e.i].pos = g[e.i].pos \o g[e.j].pos]>>
    [] e.act = "Drift" ->
         (* e.ret = L * mean step of the reference atoms per frame, e.ref 0-based atom indices *)
         LET ref == [k \in DOMAIN e.ref |-> e.ref[k] + 1] IN
         <<IF e.ret # DriftTimesL(Steps(g[e.i].pos, N), ref) THEN "drift-value" ELSE "ok", g>>
    [] e.act = "ApplyDrift" ->
         LET ref == [k \in DOMAIN e.ref |-> e.ref[k] + 1]
             L == Len(ref)
             cs == CorrectedStepsTimesL(Steps(g[e.i].pos, N), ref)
             exact == \A t \in DOMAIN cs : \A a \in DOMAIN cs[t] : \A c \in DOMAIN cs[t][a] : cs[t][a][c] % L = 0
             steps == [t \in DOMAIN cs |-> [a \in DOMAIN cs[t] |-> [c \in DOMAIN cs[t][a] |-> cs[t][a][c] \div L]]]
             newpos == WrapC([t \in DOMAIN steps |-> FPlus(g[e.i].pos[1], Cum(steps)[t])], N)
         IN <<IF ~exact THEN "harness-drift-not-on-grid" ELSE "ok", Append(g, [g[e.i] EXCEPT !.pos = newpos])>>
    [] e.act = "ConstructShifted" ->
         (* a copy of object i with a rigid, time-dependent translation e.g[t] added to every atom *)
         <<"ok", Append(g, [g[e.i] EXCEPT !.pos = WrapC([t \in DOMAIN g[e.i].pos |-> [a \in DOMAIN g[e.i].pos[t] |-> VPlus(g[e.i].pos[t][a], e.g[t])]], N)])>>
    [] e.act = "Gauge" ->
         (* C13: the drift-corrected motion of an object and of its rigidly translated copy are the same *)
         <<IF Steps(g[e.ci].pos, N) = Steps(g[e.cj].pos, N) THEN "ok" ELSE "corrected-motion-depends-on-rigid-translation", g>>
    [] e.act = "ReadOnly" -> <<"ok", g>>
    [] OTHER -> <<"unknown-action", g>>

(* C13 clauses evaluated on the corrected object (last in the store) *)
DriftClauses(g, e, N) ==
  LET ref == [k \in DOMAIN e.ref |-> e.ref[k] + 1]
      new == g[Len(g)]
      dr == DriftTimesL(Steps(new.pos, N), ref)
  IN IF \E t \in DOMAIN dr : \E c \in DOMAIN dr[t] : dr[t][c] # 0 THEN "drift-of-reference-not-zero"
     ELSE IF new.pos[1] # g[e.i].pos[1] THEN "drift-first-frame-changed"
     ELSE "ok"

Init == l = 1 /\ st = Fresh /\ bid = -1
TStep == /\ l <= Len(Log)
         /\ LET e == Log[l]
                s0 == IF e.b # bid THEN [ghost |-> <<>>, N |-> e.N, G |-> e.G] ELSE st
                r == Apply(s0, e)
                v1 == r[1]
                v2 == IF v1 # "ok" THEN v1 ELSE FirstBad(r[2], e.objs)
                v3 == IF v2 = "ok" /\ e.act = "ApplyDrift" THEN DriftClauses(r[2], e, s0.N) ELSE v2
                (* after a bad object projection resynchronise with what was observed so that later steps are still judged *)
                g2 == IF v2 \in {"object-data-changed", "object-species-changed", "object-timestep-or-metadata-changed", "object-lattice-changed"}
                      THEN [i \in 1..Len(r[2]) |-> IF e.objs[i].dead THEN r[2][i] ELSE Obj(e.objs[i].pos, e.objs[i].sp, e.objs[i].dt, e.objs[i].meta, e.objs[i].lat)]
                      ELSE r[2]
            IN /\ PrintT(<<"V", l, v3, e.act>>)
               /\ st' = [s0 EXCEPT !.ghost = g2]
               /\ bid' = e.b
         /\ l' = l + 1
Spec == Init /\ [][TStep]_vars
Consumed == TLCGet("stats").diameter - 1 = Len(Log)
=============================================================================
