----------------------------- MODULE MC_Walker -----------------------------
(* Leg M for C10 (and lemmas of C08/C09): a walker on every small periodic    *)
(* grid.  Phase "build" fills the grid voxel by voxel with energies from      *)
(* Energies (Blocked included); phase "walk" moves a walker from <<0,0,0>>    *)
(* along the allowed moves, accumulating the step cost.                       *)
(*   NeverCheaper : no walker behaviour reaches a voxel with less than        *)
(*                  MinCost (the Bellman-Ford operator used by the trace spec)*)
(*   Attained     : MinCost equals the minimum over all simple walks found by *)
(*                  exhaustive recursion (so it is attained, not just a bound)*)
(*   PeakAttained : same for the bottleneck criterion                         *)
EXTENDS Grid, TLC
CONSTANTS DX, DY, DZ, Energies, MaxCost, Diagonal, Kind, WithBlocked
EnergySet == Energies \cup (IF WithBlocked THEN {Blocked} ELSE {})
Moves == IF Diagonal THEN Moves26 ELSE Moves6
VARIABLES cells, phase, pos, cost
vars == <<cells, phase, pos, cost>>
NCells == DX * DY * DZ
EOf(c) == [x \in 1..DX |-> [y \in 1..DY |-> [z \in 1..DZ |-> c[(x - 1) * DY * DZ + (y - 1) * DZ + z]]]]
E == EOf(cells)
Start == <<0, 0, 0>>
Init == cells = <<>> /\ phase = "build" /\ pos = Start /\ cost = 0
Build == /\ phase = "build" /\ Len(cells) < NCells
         /\ \E e \in EnergySet : cells' = Append(cells, e)
         /\ UNCHANGED <<phase, pos, cost>>
Begin == /\ phase = "build" /\ Len(cells) = NCells /\ cells[1] # Blocked
         /\ phase' = "walk" /\ UNCHANGED <<cells, pos, cost>>
Move == /\ phase = "walk"
        /\ \E m \in Moves : LET q == Step(pos, m, Dims(E)) IN
             /\ q \in Nodes(E)
             /\ cost + StepCost(Kind, E, pos, q) <= MaxCost
             /\ pos' = q /\ cost' = cost + StepCost(Kind, E, pos, q)
        /\ UNCHANGED <<cells, phase>>
Spec == Init /\ [][Build \/ Begin \/ Move]_vars
NeverCheaper == phase = "walk" => cost >= MinCost(E, Moves, Kind, Start, pos)
(* exhaustive minimum over simple walks *)
RECURSIVE Brute(_, _, _, _)
Brute(u, t, seen, peakMode) ==
  IF u = t THEN (IF peakMode THEN At(E, u) ELSE 0)
  ELSE LET nb == Nbrs(E, u, Moves) \ seen
           vals == {LET r == Brute(v, t, seen \cup {v}, peakMode) IN
                      IF r = Inf THEN Inf ELSE IF peakMode THEN Max2g(At(E, u), r) ELSE StepCost(Kind, E, u, v) + r : v \in nb}
       IN IF vals = {} THEN Inf ELSE MinSet(vals)
Attained == (phase = "walk" /\ pos = Start /\ cost = 0) =>
               \A t \in Nodes(E) : MinCost(E, Moves, Kind, Start, t) = Brute(Start, t, {Start}, FALSE)
PeakAttained == (phase = "walk" /\ pos = Start /\ cost = 0) =>
               \A t \in Nodes(E) : MinPeak(E, Moves, Start, t) = Brute(Start, t, {Start}, TRUE)
(* C08 lemmas *)
ASSUME \A n \in 1..64 : RoundTrip(n)
ASSUME \A L \in 1..60 : \A res \in 1..L : ResolutionBand(L, res, NVox(L, res))
=============================================================================
