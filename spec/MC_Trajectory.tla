--------------------------- MODULE MC_Trajectory ---------------------------
(* Leg M for C15 (and the C01/C13 clauses that live on the object store):     *)
(* every sequence of public-API calls up to MaxDepth on up to MaxObjs live    *)
(* objects, on the implementation-shaped model of Trajectory.tla.             *)
(* Smallest witnesses the bounds must admit: (a) GetDisp then Slice/Filter on *)
(* the same object (a read that leaves the object in displacement mode),      *)
(* depth 3; (b) raw coordinates outside the cell so that base_positions is    *)
(* not wrapped; (c) Extend of an object in displacement mode.                 *)
EXTENDS Trajectory, TLC, Json
CONSTANTS N, MaxObjs, MaxDepth, DoExport, Variant
Species == <<1, 2>>
(* raw coordinate arrays: 3 frames x 2 atoms x 1 axis, values outside [0,N) included, steps < N/2 *)
Menu == { <<<< <<1>>, <<9>> >>, << <<2>>, <<8>> >>, << <<3>>, <<-1>> >>>>,
          <<<< <<-7>>, <<4>> >>, << <<0>>, <<5>> >>, << <<17>>, <<4>> >>>> }
(* domain restrictions of C01 / C13: no step of exactly half a cell; steps below a quarter cell where drift is subtracted *)
NoHalf(pos) == \A t \in 2..Len(pos) : \A a \in DOMAIN pos[t] : \A c \in DOMAIN pos[t][a] : 2 * ((pos[t][a][c] - pos[t - 1][a][c]) % N) # N
Quarter(pos) == LET st == Steps(pos, N) IN \A t \in DOMAIN st : \A a \in DOMAIN st[t] : \A c \in DOMAIN st[t][a] : 4 * st[t][a][c] < N /\ 4 * st[t][a][c] > -N
VARIABLES objs, ghost, depth, retOk, last, calls
vars == <<objs, ghost, depth, retOk, last, calls>>
Init == objs = <<>> /\ ghost = <<>> /\ depth = 0 /\ retOk = TRUE /\ last = <<"Init">> /\ calls = <<>>
Room == Len(objs) < MaxObjs
G(i) == ghost[i]

Construct == Room /\ \E c \in Menu :
     /\ objs' = Append(objs, NewPos(c, Species, 1, 1))
     /\ ghost' = Append(ghost, [pos |-> WrapC(c, N), sp |-> Species])
     /\ retOk' = TRUE /\ last' = <<"Construct", c>>
(* a trajectory given as displacements + base positions (apply_drift_correction builds these) *)
ConstructDisp == Room /\ \E c \in Menu :
     LET d == DispOf(WrapC(c, N), N) IN
     /\ objs' = Append(objs, NewDisp(c[1], d, Species, 1, 1))
     /\ ghost' = Append(ghost, [pos |-> WrapC(c, N), sp |-> Species])
     /\ retOk' = TRUE /\ last' = <<"ConstructDisp", c>>
GetPos(i) == LET p == ToPos(objs[i], N) IN
     /\ objs' = [objs EXCEPT ![i] = p] /\ UNCHANGED ghost
     /\ retOk' = (p.coords = G(i).pos /\ InCellC(p.coords, N))
     /\ last' = <<"GetPos", i>>
GetDisp(i) == LET p == ToDisp(objs[i], N) IN
     /\ objs' = [objs EXCEPT ![i] = p] /\ UNCHANGED ghost
     /\ retOk' = (NoHalf(G(i).pos) => (p.coords = Steps(G(i).pos, N) /\ StepsSmall(p.coords, N) /\ Telescopes(G(i).pos, p.coords, N)))
     /\ last' = <<"GetDisp", i>>
Slice(i, a, b, st) == LET idx == PyRange(a, b, st) r == ImplSlice(objs[i], [k \in DOMAIN idx |-> idx[k] + 1], N) IN
     /\ Room /\ Len(idx) > 0
     /\ objs' = Append([objs EXCEPT ![i] = r[1]], r[2])
     /\ ghost' = Append(ghost, [pos |-> Sel(G(i).pos, [k \in DOMAIN idx |-> idx[k] + 1]), sp |-> G(i).sp])
     /\ retOk' = TRUE /\ last' = <<"Slice", i, a, b, st>>
KeepOf(sp, s) == SelectSeq([k \in 1..Len(sp) |-> k], LAMBDA k : sp[k] = s)
(* Variant "filter-coords" is a negative control: filter() reading self.coords instead of self.positions *)
BadFilter(o, keep) == <<o, NewPos(SelAtoms(o.coords, keep), [k \in 1..Len(keep) |-> o.sp[keep[k]]], o.dt, o.meta)>>
Filter(i, s) == LET keep == KeepOf(objs[i].sp, s) r == IF Variant = "filter-coords" THEN BadFilter(objs[i], keep) ELSE ImplFilter(objs[i], keep, N) IN
     /\ Room /\ Len(keep) > 0
     /\ objs' = Append([objs EXCEPT ![i] = r[1]], r[2])
     /\ ghost' = Append(ghost, [pos |-> SelAtoms(G(i).pos, keep), sp |-> [k \in 1..Len(keep) |-> G(i).sp[keep[k]]]])
     /\ retOk' = TRUE /\ last' = <<"Filter", i, s>>
Extend(i, j) == LET r == ImplExtend(objs[i], objs[j], N) IN
     /\ i # j /\ objs[i].sp = objs[j].sp /\ Len(objs[i].coords) + Len(objs[j].coords) <= 6
     /\ objs' = [objs EXCEPT ![i] = r[1], ![j] = r[2]]
     /\ ghost' = [ghost EXCEPT ![i].pos = G(i).pos \o G(j).pos]
     /\ retOk' = TRUE /\ last' = <<"Extend", i, j>>
(* apply_drift_correction(fixed_species=s) with a single reference atom: filter() reads positions of self, *)
(* then self.displacements twice; the new object is built from displacements and self.base_positions       *)
ApplyDrift(i, s) == LET keep == KeepOf(objs[i].sp, s)
                        p1 == ToPos(objs[i], N)               \* self.filter(...)
                        p2 == ToDisp(p1, N)                   \* self.displacements
                        dr == DriftTimesL(SelAtoms(DispOf(SelAtoms(p1.coords, keep), N), <<1>>), <<1>>)
                        nd == [t \in DOMAIN p2.coords |-> [a \in DOMAIN p2.coords[t] |-> VMinus(p2.coords[t][a], dr[t])]]
                        gsteps == CorrectedStepsTimesL(Steps(G(i).pos, N), keep)
                        gpos == WrapC([t \in DOMAIN gsteps |-> FPlus(G(i).pos[1], Cum(gsteps)[t])], N)
                    IN
     /\ Room /\ Len(keep) = 1 /\ Len(objs[i].sp) = 2 /\ Quarter(G(i).pos)
     /\ objs' = Append([objs EXCEPT ![i] = p2], NewDisp(p2.base, nd, p2.sp, p2.dt, p2.meta))
     /\ ghost' = Append(ghost, [pos |-> gpos, sp |-> G(i).sp])
     /\ retOk' = TRUE /\ last' = <<"ApplyDrift", i, s>>
Op == \/ Construct \/ ConstructDisp
      \/ \E i \in 1..Len(objs) :
           \/ GetPos(i) \/ GetDisp(i)
           \/ \E a \in 0..(Len(objs[i].coords) - 1), b \in 1..Len(objs[i].coords), st \in 1..2 : Slice(i, a, b, st)
           \/ \E s \in {1, 2} : Filter(i, s) \/ ApplyDrift(i, s)
           \/ \E j \in 1..Len(objs) : Extend(i, j)
(* the call history is only carried when behaviours are exported for replay (it would otherwise multiply states) *)
Step == depth < MaxDepth /\ depth' = depth + 1 /\ Op /\ calls' = IF DoExport THEN Append(calls, last') ELSE calls
Spec == Init /\ [][Step]_vars

(* C15: whatever was called, every live object still denotes what it denoted *)
AbsStable == \A i \in 1..Len(objs) : Abs(objs[i], N) = ghost[i].pos /\ objs[i].sp = ghost[i].sp
ReturnsOk == retOk
(* C13 on the model: the reference atom of a drift-corrected object does not move *)
DriftZero == last[1] = "ApplyDrift" =>
               LET g == ghost[Len(ghost)] keep == KeepOf(g.sp, last[3]) st == Steps(g.pos, N)
               IN \A t \in DOMAIN st : st[t][keep[1]] = VZeroLike(st[t][keep[1]])
DriftKeepsFirstFrame == last[1] = "ApplyDrift" => ghost[Len(ghost)].pos[1] = ghost[last[2]].pos[1]
Export == (DoExport /\ depth >= 1) => PrintT(ToJson([calls |-> calls, ghost |-> [i \in 1..Len(ghost) |-> ghost[i].pos], sp |-> [i \in 1..Len(ghost) |-> ghost[i].sp]]))
=============================================================================
