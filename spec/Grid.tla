-------------------------------- MODULE Grid --------------------------------
(* Voxel grids (C08), free-energy node set (C09) and paths on the periodic    *)
(* grid (C10).  A voxel is <<x, y, z>> with 0-based components; a grid is a   *)
(* nested sequence E[x+1][y+1][z+1] of integers.                              *)
EXTENDS Integers, Sequences, FiniteSets

----------------------------------------------------------------------------
(* C08 *)
(* number of voxels along an axis of length L for resolution res (same integer unit): trajectory_to_volume uses   *)
(* 1 + L // res bin edges, i.e. L // res voxels                                                                   *)
NVox(L, res) == L \div res
(* voxel edge = L / n; property: res <= L/n < 2 res *)
ResolutionBand(L, res, n) == n >= 1 /\ n * res <= L /\ L < 2 * n * res
(* voxel index of coordinate k/N on a grid of n voxels *)
Bin(k, n, N) == (k * n) \div N
BinV(p, dims, N) == <<Bin(p[1], dims[1], N), Bin(p[2], dims[2], N), Bin(p[3], dims[3], N)>>
(* centre of voxel v is (2v+1)/(2n); converting back gives v *)
RoundTrip(n) == \A v \in 0..(n - 1) : Bin(2 * v + 1, n, 2 * n) = v
(* density: number of (frame, atom) samples per voxel, as a set of <<voxel, count>> for the non-empty voxels *)
Density(pos, dims, N) ==
  LET samples == {<<t, a>> : t \in 1..Len(pos), a \in 1..Len(pos[1])}
      vox(s) == BinV(pos[s[1]][s[2]], dims, N)
      occupied == {vox(s) : s \in samples}
  IN {<<v, Cardinality({s \in samples : vox(s) = v})>> : v \in occupied}

----------------------------------------------------------------------------
(* C10: the walker on the periodic grid *)
Moves6 == {<<1, 0, 0>>, <<-1, 0, 0>>, <<0, 1, 0>>, <<0, -1, 0>>, <<0, 0, 1>>, <<0, 0, -1>>}
Moves26 == {<<a, b, c>> : a \in {-1, 0, 1}, b \in {-1, 0, 1}, c \in {-1, 0, 1}} \ {<<0, 0, 0>>}
(* deviation D14 (repaired): the move list as originally coded lacked +-(1,1,-1) and +-(1,-1,1) *)
Moves22 == Moves26 \ {<<1, 1, -1>>, <<-1, -1, 1>>, <<1, -1, 1>>, <<-1, 1, -1>>}
Blocked == -1
Dims(E) == <<Len(E), Len(E[1]), Len(E[1][1])>>
At(E, v) == E[v[1] + 1][v[2] + 1][v[3] + 1]
Voxels(E) == LET d == Dims(E) IN (0..(d[1] - 1)) \X (0..(d[2] - 1)) \X (0..(d[3] - 1))
Nodes(E) == {v \in Voxels(E) : At(E, v) # Blocked}
WrapVox(v, d) == <<v[1] % d[1], v[2] % d[2], v[3] % d[3]>>
Step(v, m, d) == WrapVox(<<v[1] + m[1], v[2] + m[2], v[3] + m[3]>>, d)
Nbrs(E, v, moves) == {Step(v, m, Dims(E)) : m \in moves} \cap Nodes(E)
IsNbr(E, u, v, moves) == \E m \in moves : Step(u, m, Dims(E)) = v

(* step costs (integers): "sum" = E[u] + E[v] (twice the code's 0.5 (Eu+Ev)); "simple" = 1; "exp" = 2^(m_u + m_v)    *)
(* for grids holding the exponents m (the harness feeds the code energies 2 m ln 2)                                  *)
RECURSIVE Pow2(_)
Pow2(n) == IF n = 0 THEN 1 ELSE 2 * Pow2(n - 1)
StepCost(kind, E, u, v) == CASE kind = "sum" -> At(E, u) + At(E, v)
                             [] kind = "simple" -> 1
                             [] kind = "exp" -> Pow2(At(E, u) + At(E, v))
Inf == 1000000000
MinSet(S) == CHOOSE x \in S : \A y \in S : x <= y
(* Bellman-Ford fix-point over the node set *)
RECURSIVE Relax(_, _, _, _, _)
Relax(E, moves, kind, d, k) ==
  IF k = 0 THEN d
  ELSE LET d2 == [v \in Nodes(E) |-> MinSet({d[v]} \cup {IF d[u] = Inf THEN Inf ELSE d[u] + StepCost(kind, E, u, v) : u \in Nbrs(E, v, moves)})]
       IN IF d2 = d THEN d ELSE Relax(E, moves, kind, d2, k - 1)
MinCost(E, moves, kind, s, t) ==
  IF s \notin Nodes(E) \/ t \notin Nodes(E) THEN Inf
  ELSE Relax(E, moves, kind, [v \in Nodes(E) |-> IF v = s THEN 0 ELSE Inf], Cardinality(Nodes(E)))[t]
(* bottleneck: smallest achievable maximum node energy over all paths s -> t *)
Max2g(a, b) == IF a > b THEN a ELSE b
RECURSIVE RelaxPeak(_, _, _, _)
RelaxPeak(E, moves, d, k) ==
  IF k = 0 THEN d
  ELSE LET d2 == [v \in Nodes(E) |-> MinSet({d[v]} \cup {IF d[u] = Inf THEN Inf ELSE Max2g(d[u], At(E, v)) : u \in Nbrs(E, v, moves)})]
       IN IF d2 = d THEN d ELSE RelaxPeak(E, moves, d2, k - 1)
MinPeak(E, moves, s, t) ==
  IF s \notin Nodes(E) \/ t \notin Nodes(E) THEN Inf
  ELSE RelaxPeak(E, moves, [v \in Nodes(E) |-> IF v = s THEN At(E, s) ELSE Inf], Cardinality(Nodes(E)))[t]

(* a reported path: sequence of voxels *)
ValidWalk(E, moves, sites) == /\ Len(sites) >= 1
                              /\ \A i \in 1..Len(sites) : sites[i] \in Nodes(E)
                              /\ \A i \in 1..(Len(sites) - 1) : IsNbr(E, sites[i], sites[i + 1], moves)
RECURSIVE WalkCost(_, _, _, _)
WalkCost(kind, E, sites, i) == IF i >= Len(sites) THEN 0 ELSE StepCost(kind, E, sites[i], sites[i + 1]) + WalkCost(kind, E, sites, i + 1)
RECURSIVE NodeSum(_, _, _)
NodeSum(E, sites, i) == IF i > Len(sites) THEN 0 ELSE At(E, sites[i]) + NodeSum(E, sites, i + 1)
PeakOf(E, sites) == MinSet({-At(E, sites[i]) : i \in 1..Len(sites)}) * (-1)

(* tiling for percolation: the grid repeated twice along the requested axes *)
Tile(E, perc) == LET d == Dims(E) IN
  [x \in 1..(d[1] * (1 + perc[1])) |-> [y \in 1..(d[2] * (1 + perc[2])) |-> [z \in 1..(d[3] * (1 + perc[3])) |->
      E[((x - 1) % d[1]) + 1][((y - 1) % d[2]) + 1][((z - 1) % d[3]) + 1]]]]
=============================================================================
