------------------------------ MODULE Lattice ------------------------------
(* Exact periodic geometry on an integer grid.                               *)
(* A fractional coordinate is k/N (k integer).  The cell enters only through *)
(* its integer metric tensor G (G[i][j] = a_i . a_j in units of Angstrom^2   *)
(* over a known denominator), so every squared Cartesian length is           *)
(* k^T G k / N^2 -- an integer over a known denominator.  Nothing in this    *)
(* module knows the orientation of the cell: results are rotation-invariant  *)
(* by construction.                                                          *)
EXTENDS Integers, Sequences, FiniteSets

Dot(G, u, v) ==   u[1] * (G[1][1]*v[1] + G[1][2]*v[2] + G[1][3]*v[3])
                + u[2] * (G[2][1]*v[1] + G[2][2]*v[2] + G[2][3]*v[3])
                + u[3] * (G[3][1]*v[1] + G[3][2]*v[2] + G[3][3]*v[3])
NormSq(G, u) == Dot(G, u, u)

VAdd(u, v) == <<u[1] + v[1], u[2] + v[2], u[3] + v[3]>>
VSub(u, v) == <<u[1] - v[1], u[2] - v[2], u[3] - v[3]>>
VScale(c, u) == <<c * u[1], c * u[2], c * u[3]>>
VNeg(u) == <<-u[1], -u[2], -u[3]>>
VZero == <<0, 0, 0>>

(* component-wise wrap into [0,N) and into the symmetric interval (-N/2, N/2] *)
WrapK(k, N) == k % N
Wrap(u, N) == <<u[1] % N, u[2] % N, u[3] % N>>
CenterK(k, N) == LET m == k % N IN IF 2 * m > N THEN m - N ELSE m
Center(u, N) == <<CenterK(u[1], N), CenterK(u[2], N), CenterK(u[3], N)>>

(* np.around half-to-even on d/N is avoided: callers guarantee 2|d| # N (mod N) *)
RoundK(d, N) == LET m == d % N IN IF 2 * m > N THEN (d - m) \div N + 1 ELSE (d - m) \div N

Range1 == <<-1, 0, 1>>
Range2 == <<-2, -1, 0, 1, 2>>
Range3 == <<-3, -2, -1, 0, 1, 2, 3>>
RangeOf(R) == IF R = 0 THEN <<0>> ELSE IF R = 1 THEN Range1 ELSE IF R = 2 THEN Range2 ELSE Range3

Min2(a, b) == IF a < b THEN a ELSE b
Max2(a, b) == IF a > b THEN a ELSE b

RECURSIVE MinOverSeq(_, _, _)
MinOverSeq(F(_), s, i) == IF i = Len(s) THEN F(s[i]) ELSE Min2(F(s[i]), MinOverSeq(F, s, i + 1))

(* Squared minimum-image length of the grid vector k (units 1/N), searching  *)
(* images n in {-R..R}^3 around the centred representative.  The minimum over *)
(* the shift range is unrolled (no recursion) -- this is TLC's hot loop.      *)
M1(F(_)) == Min2(F(-1), Min2(F(0), F(1)))
M2(F(_)) == Min2(Min2(F(-2), F(-1)), Min2(F(0), Min2(F(1), F(2))))
M3(F(_)) == Min2(Min2(F(-3), F(3)), M2(F))
MinImageSq(G, k, N, R) ==
  LET c1 == CenterK(k[1], N)
      c2 == CenterK(k[2], N)
      c3 == CenterK(k[3], N)
      g11 == G[1][1]  g22 == G[2][2]  g33 == G[3][3]
      g12 == 2 * G[1][2]  g13 == 2 * G[1][3]  g23 == 2 * G[2][3]
      F3(a, b, z) == LET x == c1 + N * a  y == c2 + N * b  w == c3 + N * z
                     IN x * (g11 * x + g12 * y + g13 * w) + y * (g22 * y + g23 * w) + g33 * w * w
  IN IF R = 0 THEN F3(0, 0, 0)
     ELSE IF R = 1 THEN M1(LAMBDA a : M1(LAMBDA b : M1(LAMBDA z : F3(a, b, z))))
     ELSE IF R = 2 THEN M2(LAMBDA a : M2(LAMBDA b : M2(LAMBDA z : F3(a, b, z))))
     ELSE M3(LAMBDA a : M3(LAMBDA b : M3(LAMBDA z : F3(a, b, z))))

(* the image vector realising the minimum (ties: any) *)
MinImage(G, k, N, R) ==
  LET c == Center(k, N)
      rs == RangeOf(R)
      best == MinImageSq(G, k, N, R)
      cands == {<<c[1] + N * rs[a], c[2] + N * rs[b], c[3] + N * rs[z]>> : a \in DOMAIN rs, b \in DOMAIN rs, z \in DOMAIN rs}
  IN CHOOSE v \in cands : NormSq(G, v) = best

DistSq(G, p, q, N, R) == MinImageSq(G, VSub(p, q), N, R)
(* a cell that is periodic only along the axes with pbc[i] = TRUE (slab, wire): images are taken along those axes only; along the  *)
(* others the plain difference of the coordinates (both inside the cell) counts                                                 *)
DistSqPbc(G, p, q, N, R, pbc) ==
  LET k == VSub(p, q)
      X(i) == IF pbc[i] THEN {CenterK(k[i], N) + N * a : a \in (0 - R)..R} ELSE {k[i]}
      qs == {NormSq(G, <<x, y, z>>) : x \in X(1), y \in X(2), z \in X(3)}
  IN CHOOSE m \in qs : \A o \in qs : m <= o
=============================================================================
