------------------------------ MODULE MC_Coll ------------------------------
(* Leg M for C12: every jump table with up to MaxJ jumps, times 0..MaxT, NAt  *)
(* atoms, over NS sites with a constant closeness relation.  The sorted scan  *)
(* of collective.py (CodePairs) must find exactly the declarative pairs.      *)
(* Smallest witness the bounds must admit (D9): three jumps, times <= 5       *)
(* (MaxT >= Window + 4): (a1: 0->1), (a1: 3->4), (a2: 0->5), window 1.        *)
EXTENDS Sites, TLC, Json
CONSTANTS MaxT, NAt, MaxJ, Window, UseBreak, NS, AllNear, DoExport
NearSites == IF AllNear THEN (0..(NS - 1)) \X (0..(NS - 1))
             ELSE {<<s, s>> : s \in 0..(NS - 1)} \cup {<<0, 1>>, <<1, 0>>}
NearJ(x, y) == \E a \in {x[2], x[3]}, b \in {y[2], y[3]} : <<a, b>> \in NearSites
JumpSet == {<<a, ss, ds, s, e>> \in (0..(NAt - 1)) \X (0..(NS - 1)) \X (0..(NS - 1)) \X (0..MaxT) \X (0..MaxT) : s < e /\ ss # ds}
VARIABLE tbl
Init == tbl = <<>>
(* tables are multisets for both definitions (OrderFree), so they are generated in canonical increasing order *)
(* strictly increasing: a jump table never contains the same row (atom, sites, times) twice *)
RowLeq(x, y) == \E k \in 1..5 : x[k] < y[k] /\ \A i \in 1..(k - 1) : x[i] = y[i]
Add == Len(tbl) < MaxJ /\ \E j \in JumpSet : (IF Len(tbl) = 0 THEN TRUE ELSE RowLeq(tbl[Len(tbl)], j)) /\ tbl' = Append(tbl, j)
Spec == Init /\ [][Add]_tbl
ScanIsDecl == CodePairs(tbl, Window, NearJ, UseBreak) = DeclPairs(tbl, Window, NearJ)
SoloPlusColl == LET p == DeclPairs(tbl, Window, NearJ) IN
                  Cardinality(InvolvedIn(p)) + (Len(tbl) - Cardinality(InvolvedIn(p))) = Len(tbl)
(* declarative pairs do not depend on how ties are ordered / on the order of the table *)
OrderFree == LET ev == SortJ(tbl)
                 asRows(P, e) == {{e[p[1]], e[p[2]]} : p \in P}
             IN asRows(DeclPairs(tbl, Window, NearJ), ev) = asRows(DeclPairs(Reverse(tbl), Window, NearJ), SortJ(Reverse(tbl)))
Export == (DoExport /\ Len(tbl) = MaxJ) =>
   PrintT(ToJson([tbl |-> tbl, sorted |-> SortJ(tbl), window |-> Window,
                  pairs |-> SetToSortedPairs(DeclPairs(tbl, Window, NearJ))]))
=============================================================================
