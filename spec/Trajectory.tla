----------------------------- MODULE Trajectory -----------------------------
(* gemdat.Trajectory as a state machine over an exact grid (coordinates are   *)
(* integers in units 1/N; a vector is a tuple of D integers; a frame is a     *)
(* sequence over atoms of vectors; coords is a sequence of frames).           *)
(*                                                                            *)
(* Part 1 transcribes the implementation: ONE array `coords` holds either     *)
(* positions or per-step displacements, the flag `mode` says which, and the   *)
(* read-only-looking queries switch the representation IN PLACE               *)
(* (pymatgen to_positions / to_displacements, GEMDAT's wrapping override,     *)
(* __getitem__, extend, filter, drift).                                       *)
(* Part 2 is the abstract meaning the properties talk about: the wrapped      *)
(* positions an object denotes, minimum-image steps, unwrapped walk.          *)
(* Abs(object) links the two; AbsStable (MC_Trajectory) is C15's core.        *)
EXTENDS Integers, Sequences, FiniteSets

----------------------------------------------------------------------------
(* vectors / frames / coordinate arrays *)
VMap(F(_), v) == [c \in DOMAIN v |-> F(v[c])]
VPlus(u, v) == [c \in DOMAIN u |-> u[c] + v[c]]
VMinus(u, v) == [c \in DOMAIN u |-> u[c] - v[c]]
VZeroLike(v) == [c \in DOMAIN v |-> 0]
FMap(F(_), f) == [a \in DOMAIN f |-> F(f[a])]
FPlus(f, g) == [a \in DOMAIN f |-> VPlus(f[a], g[a])]
FMinus(f, g) == [a \in DOMAIN f |-> VMinus(f[a], g[a])]
FZeroLike(f) == [a \in DOMAIN f |-> VZeroLike(f[a])]

WrapS(x, N) == x % N
(* component-wise round-to-nearest image; exactly half a cell is ambiguous    *)
(* under np.around (half-to-even) and excluded by every generator             *)
MinImgS(d, N) == LET m == d % N IN IF 2 * m > N THEN m - N ELSE m
WrapV(v, N) == [c \in DOMAIN v |-> WrapS(v[c], N)]
WrapF(f, N) == [a \in DOMAIN f |-> WrapV(f[a], N)]
WrapC(cs, N) == [t \in DOMAIN cs |-> WrapF(cs[t], N)]
MinImgF(f, N) == [a \in DOMAIN f |-> [c \in DOMAIN f[a] |-> MinImgS(f[a][c], N)]]

RECURSIVE CumSumC(_, _)
CumSumC(cs, t) == IF t = 1 THEN cs[1] ELSE FPlus(CumSumC(cs, t - 1), cs[t])
CumC(cs) == [t \in DOMAIN cs |-> CumSumC(cs, t)]          \* quadratic; fine for the sizes used
(* linear version for traces *)
RECURSIVE CumFrom(_, _, _)
CumFrom(cs, t, acc) == IF t > Len(cs) THEN <<>> ELSE LET s == FPlus(acc, cs[t]) IN <<s>> \o CumFrom(cs, t + 1, s)
Cum(cs) == IF Len(cs) = 0 THEN <<>> ELSE CumFrom(cs, 1, FZeroLike(cs[1]))

Sel(cs, idx) == [k \in 1..Len(idx) |-> cs[idx[k]]]
SelAtoms(cs, keep) == [t \in DOMAIN cs |-> [k \in 1..Len(keep) |-> cs[t][keep[k]]]]
(* Python range(start, stop, step), 0-based indices, step >= 1 *)
PyRange(a, b, st) == LET n == IF b > a THEN (b - a + st - 1) \div st ELSE 0 IN [k \in 1..n |-> a + (k - 1) * st]

----------------------------------------------------------------------------
(* Part 1: implementation-shaped object  [mode, coords, base, sp, dt, meta]   *)

(* pymatgen.to_positions (no-op in position mode) followed by GEMDAT's        *)
(* unconditional np.mod(coords, 1)                                            *)
ToPos(o, N) == IF o.mode = "disp"
               THEN [o EXCEPT !.mode = "pos", !.coords = WrapC([t \in DOMAIN o.coords |-> FPlus(o.base, Cum(o.coords)[t])], N)]
               ELSE [o EXCEPT !.coords = WrapC(o.coords, N)]
(* pymatgen.to_displacements: difference with the rolled array, first frame   *)
(* zeroed, then minus np.around                                               *)
DispOf(cs, N) == [t \in DOMAIN cs |-> IF t = 1 THEN FZeroLike(cs[1]) ELSE MinImgF(FMinus(cs[t], cs[t - 1]), N)]
ToDisp(o, N) == IF o.mode = "pos" THEN [o EXCEPT !.mode = "disp", !.coords = DispOf(o.coords, N)] ELSE o

NewPos(cs, sp, dt, meta) == [mode |-> "pos", coords |-> cs, base |-> cs[1], sp |-> sp, dt |-> dt, meta |-> meta]
NewDisp(base, ds, sp, dt, meta) == [mode |-> "disp", coords |-> ds, base |-> base, sp |-> sp, dt |-> dt, meta |-> meta]

(* __getitem__(slice / list): to_positions() on the source first, new object in position mode *)
ImplSlice(o, idx, N) == LET p == ToPos(o, N) IN <<p, NewPos(Sel(p.coords, idx), p.sp, p.dt, p.meta)>>
(* filter: reads self.positions *)
ImplFilter(o, keep, N) == LET p == ToPos(o, N) IN
   <<p, NewPos(SelAtoms(p.coords, keep), [k \in 1..Len(keep) |-> p.sp[keep[k]]], p.dt, p.meta)>>
(* extend: both to positions, concatenate; base_positions of self untouched *)
ImplExtend(o, q, N) == LET p == ToPos(o, N) r == ToPos(q, N) IN <<[p EXCEPT !.coords = p.coords \o r.coords], r>>

(* what an implementation-shaped object denotes *)
Abs(o, N) == IF o.mode = "pos" THEN WrapC(o.coords, N)
             ELSE WrapC([t \in DOMAIN o.coords |-> FPlus(o.base, Cum(o.coords)[t])], N)

----------------------------------------------------------------------------
(* Part 2: abstract meaning (ghost = wrapped positions, a Seq of frames)      *)
InCellC(cs, N) == \A t \in DOMAIN cs : \A a \in DOMAIN cs[t] : \A c \in DOMAIN cs[t][a] : cs[t][a][c] >= 0 /\ cs[t][a][c] < N
Steps(pos, N) == DispOf(pos, N)
Walk(pos, N) == Cum(Steps(pos, N))                      \* cumulative displacements (unwrapped, relative to frame 1)
(* C01 clauses on returned values *)
SameModN(x, y, N) == WrapC(x, N) = WrapC(y, N)
StepsSmall(ds, N) == \A t \in DOMAIN ds : \A a \in DOMAIN ds[t] : \A c \in DOMAIN ds[t][a] : 2 * ds[t][a][c] <= N /\ 2 * ds[t][a][c] >= -N
Telescopes(pos, ds, N) == WrapC([t \in DOMAIN ds |-> FPlus(pos[1], Cum(ds)[t])], N) = pos

(* domain of the displacement clauses: no coordinate moves by exactly half a cell between consecutive frames *)
NoHalfStep(pos, N) == \A t \in 2..Len(pos) : \A a \in DOMAIN pos[t] : \A c \in DOMAIN pos[t][a] :
                         2 * ((pos[t][a][c] - pos[t - 1][a][c]) % N) # N

(* C13: drift of a reference set of atoms (indices `ref`), in units 1/(N*Len(ref)) so that means are integers: *)
(* all quantities below are multiplied by L = Len(ref)                                                         *)
RECURSIVE SumOver(_, _, _)
SumOver(f, ref, k) == IF k > Len(ref) THEN VZeroLike(f[1]) ELSE VPlus(f[ref[k]], SumOver(f, ref, k + 1))
DriftTimesL(steps, ref) == [t \in DOMAIN steps |-> SumOver(steps[t], ref, 1)]
CorrectedStepsTimesL(steps, ref) ==
  LET L == Len(ref) dr == DriftTimesL(steps, ref)
  IN [t \in DOMAIN steps |-> [a \in DOMAIN steps[t] |-> [c \in DOMAIN steps[t][a] |-> L * steps[t][a][c] - dr[t][c]]]]
=============================================================================
