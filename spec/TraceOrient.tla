---------------------------- MODULE TraceOrient ----------------------------
(* Oracle for C18: from the harness-generated centre / satellite grid         *)
(* positions print the matched pairs, bond vectors and squared lengths; for   *)
(* integer-Cartesian cases also the symmetry images, the transformed vectors  *)
(* and the autocorrelation numerators.                                        *)
EXTENDS Orient, TLC, Json, IOUtils, TLCExt
Log == ndJsonDeserialize(IOEnv.TRACE_FILE)
VARIABLE l
V3o(x) == <<x[1], x[2], x[3]>>
Frames(a) == [t \in DOMAIN a |-> [i \in DOMAIN a[t] |-> V3o(a[t][i])]]
Expected(e) ==
  LET cen == Frames(e.cen)  sat == Frames(e.sat)
      bonds == Bonds(e.G, e.N, e.R, cen, sat)
      cart == [t \in DOMAIN bonds |-> [b \in DOMAIN bonds[t] |-> <<e.scale[1] * bonds[t][b][1], e.scale[2] * bonds[t][b][2], e.scale[3] * bonds[t][b][3]>>]]
  IN [pairs |-> BondPairs(e.G, e.N, e.R, cen[1], sat[1]),
      bonds |-> bonds,
      lensq |-> LenSq(e.G, bonds),
      orth |-> \A o \in DOMAIN e.ops : IsOrthogonal(e.ops[o]),
      sym |-> IF e.cartesian THEN SymImages(cart, e.ops) ELSE <<>>,
      trans |-> IF e.cartesian THEN Transformed(cart, e.A) ELSE <<>>,
      acf |-> IF e.cartesian THEN AcfNum(cart) ELSE <<>>]
Init == l = 1
TStep == /\ l <= Len(Log)
         /\ PrintT(<<"X", l, ToJson(Expected(Log[l]))>>)
         /\ l' = l + 1
Spec == Init /\ [][TStep]_l
Consumed == TLCGet("stats").diameter - 1 = Len(Log)
=============================================================================
