------------------------------- MODULE Sites -------------------------------
(* Site histories -> event log -> jump classifier -> aggregations.           *)
(*                                                                           *)
(* A history H is a sequence of frames; a frame is a sequence over atoms of  *)
(* <<outer, inner>> with inner \in {NOSITE, outer}.  Sites are 0..S-1.       *)
(* Times are 0-based like the implementation's (frame t of the code is       *)
(* H[t+1]).                                                                  *)
(*                                                                           *)
(* Two kinds of operators live here and never mention each other:            *)
(*   * transcriptions of what the code does (Ev*, Step/Run, Scan*, ...),     *)
(*   * declarative definitions of what the properties say (Changes,          *)
(*     DefJumps, CollPairs, ...).                                            *)
(* "transcription = declaration" is what Leg M checks; Leg A/B check         *)
(* "implementation = transcription" on real executions.                      *)
EXTENDS Integers, Sequences, FiniteSets, Lattice

NOSITE == -1

Col(H, a) == [t \in 1..Len(H) |-> H[t][a]]
NAtoms(H) == IF Len(H) = 0 THEN 0 ELSE Len(H[1])

RECURSIVE SetToSortedSeq(_)
SetToSortedSeq(s) == IF s = {} THEN <<>>
                     ELSE LET m == CHOOSE x \in s : \A y \in s : x <= y IN <<m>> \o SetToSortedSeq(s \ {m})

RECURSIVE FlattenSeq(_)
FlattenSeq(ss) == IF ss = <<>> THEN <<>> ELSE Head(ss) \o FlattenSeq(Tail(ss))

SeqToSet(s) == {s[i] : i \in DOMAIN s}

-----------------------------------------------------------------------------
(* C02: site assignment on the exact lattice.  sites: sequence of grid vectors *)
(* (units 1/N); thr[s]: an atom is at site s iff the squared minimum-image     *)
(* distance (k^T G k, units G/N^2) is < thr[s] (thr = ceil(r^2 N^2), the       *)
(* generator keeps r^2 N^2 away from integers).                                *)
SitesWithin(G, N, R, p, sites, thr) == {s \in 1..Len(sites) : DistSq(G, p, sites[s], N, R) < thr[s]}
AssignAtom(G, N, R, p, sites, thr) ==
  LET c == SitesWithin(G, N, R, p, sites, thr) IN IF c = {} THEN NOSITE ELSE (CHOOSE s \in c : TRUE) - 1
MinSiteDistSq(G, N, R, sites) ==
  LET prs == {<<a, b>> \in (1..Len(sites)) \X (1..Len(sites)) : a < b}
      d(p) == DistSq(G, sites[p[1]], sites[p[2]], N, R)
  IN IF prs = {} THEN 0 ELSE d(CHOOSE p \in prs : \A q \in prs : d(p) <= d(q))
(* spheres of radius r (r^2 N^2 in (thr-1, thr)) around two sites at squared distance q do not overlap: (2r)^2 <= q *)
NonOverlap(thrA, thrB, q) == \A x \in {thrA, thrB} : 4 * (x - 1) < q

-----------------------------------------------------------------------------
(* C03: the event table                                                      *)

(* declarative: times t (0-based) at which the atom's <<outer,inner>> state   *)
(* differs between frame t and t+1                                            *)
Changes(h) == {t \in 0..(Len(h) - 2) : h[t + 1] # h[t + 2]}
OuterChanges(h) == {t \in 0..(Len(h) - 2) : h[t + 1][1] # h[t + 2][1]}

(* transcription of _calculate_transition_events for one atom: np.roll        *)
(* comparison (which compares the last frame with the first), removal of the  *)
(* wrap-around index, union of outer and inner change times                   *)
RollDiff(x) == LET T == Len(x) IN {t \in 0..(T - 1) : x[t + 1] # x[((t + 1) % T) + 1]}
DropLast(i, T) == IF i # {} /\ (T - 1) \in i THEN i \ {T - 1} ELSE i
EvTimes(h) == LET T == Len(h)
                  i == RollDiff([t \in 1..T |-> h[t][1]])
                  i2 == RollDiff([t \in 1..T |-> h[t][2]])
              IN DropLast(i, T) \cup DropLast(i2, T)
EvRowsAtom(h, a) == LET ts == SetToSortedSeq(EvTimes(h))
                    IN [k \in 1..Len(ts) |-> <<a, h[ts[k] + 1][1], h[ts[k] + 2][1], h[ts[k] + 1][2], h[ts[k] + 2][2], ts[k]>>]
(* atom-major table, atom index 0-based like the code *)
EvRows(H) == FlattenSeq([a \in 1..NAtoms(H) |-> EvRowsAtom(Col(H, a), a - 1)])

(* replaying an atom's rows from its first-frame state *)
RECURSIVE ReplayFrom(_, _, _, _)
ReplayFrom(cur, rows, t, T) ==
  IF t >= T THEN <<>>
  ELSE IF rows # <<>> /\ Head(rows)[6] = t - 1
       THEN <<<<Head(rows)[3], Head(rows)[5]>>>> \o ReplayFrom(<<Head(rows)[3], Head(rows)[5]>>, Tail(rows), t + 1, T)
       ELSE <<cur>> \o ReplayFrom(cur, rows, t + 1, T)
Replay(first, rows, T) == <<first>> \o ReplayFrom(first, rows, 1, T)

RowsOfAtom(rows, a) == SelectSeq(rows, LAMBDA r : r[1] = a)

(* previous / next site views *)
RECURSIVE FFillFrom(_, _, _)
FFillFrom(x, t, last) == IF t > Len(x) THEN <<>>
                         ELSE LET v == IF x[t] # NOSITE THEN x[t] ELSE last IN <<v>> \o FFillFrom(x, t + 1, v)
FFill(x) == FFillFrom(x, 1, NOSITE)
Reverse(s) == [i \in 1..Len(s) |-> s[Len(s) + 1 - i]]
BFill(x) == Reverse(FFill(Reverse(x)))
(* declarative: most recent / next occupied site *)
PrevSite(x, t) == LET c == {u \in 1..t : x[u] # NOSITE} IN IF c = {} THEN NOSITE ELSE x[CHOOSE u \in c : \A w \in c : w <= u]
NextSite(x, t) == LET c == {u \in t..Len(x) : x[u] # NOSITE} IN IF c = {} THEN NOSITE ELSE x[CHOOSE u \in c : \A w \in c : u <= w]

-----------------------------------------------------------------------------
(* C04: the jump classifier, transcribed branch by branch from               *)
(* _generic_transitions_to_jumps.  An event is a row <<a, ss, ds, si, di, t>>.*)
None == <<>>
(* fromevent: <<ss, ds, time>> ; candidate / jump: <<a, ss, ds, start, stop>> *)
Step(st, ev, minres) ==
  LET c1 == IF st.cand # None
            THEN IF ev[6] - st.cand[4] >= minres THEN [cand |-> None, out |-> <<st.cand>>]
                 ELSE IF st.cand[3] # ev[3] THEN [cand |-> None, out |-> <<>>]
                 ELSE [cand |-> st.cand, out |-> <<>>]
            ELSE [cand |-> None, out |-> <<>>]
      f1 == IF ev[2] # NOSITE /\ ev[2] # ev[3] THEN <<ev[2], ev[3], ev[6]>> ELSE st.from
      js == st.jumps \o c1.out
  IN IF f1 = None THEN [from |-> f1, cand |-> c1.cand, jumps |-> js]
     ELSE IF ev[3] = f1[1] THEN [from |-> None, cand |-> None, jumps |-> js]
     ELSE IF ev[5] # NOSITE THEN [from |-> None, cand |-> None,
                                  jumps |-> js \o <<<<ev[1], f1[1], ev[3], f1[3], ev[6] + 1>>>>]
     ELSE IF ev[3] # f1[2] THEN [from |-> None, cand |-> <<ev[1], f1[1], ev[3], f1[3], ev[6] + 1>>, jumps |-> js]
     ELSE [from |-> f1, cand |-> c1.cand, jumps |-> js]
RECURSIVE Run(_, _, _)
Run(st, evs, minres) == IF evs = <<>> THEN st ELSE Run(Step(st, Head(evs), minres), Tail(evs), minres)
MachineInit == [from |-> None, cand |-> None, jumps |-> <<>>]
(* per atom; the final filter start != destination is the code's *)
JumpRowsAtom(evrows, minres) == SelectSeq(Run(MachineInit, evrows, minres).jumps, LAMBDA j : j[2] # j[3])
JumpRows(evrows, nAtoms, minres) ==
  FlattenSeq([a \in 1..nAtoms |-> JumpRowsAtom(RowsOfAtom(evrows, a - 1), minres)])
JumpRowsOfHist(H, minres) == JumpRows(EvRows(H), NAtoms(H), minres)

(* declarative default jumps of one atom: consecutive pairs of distinct sites *)
(* in the sequence of visited sites; start = last frame at the origin, stop = *)
(* first frame at the destination.  Quadratic set form (the definition) ...   *)
Visited(h) == {t \in 1..Len(h) : h[t][1] # NOSITE}
DefJumpsSet(h, a) == {<<a, h[p[1]][1], h[p[2]][1], p[1] - 1, p[2] - 1>> :
                       p \in {q \in Visited(h) \X Visited(h) : q[1] < q[2] /\ h[q[1]][1] # h[q[2]][1]
                                /\ \A m \in (q[1] + 1)..(q[2] - 1) : h[m][1] = NOSITE}}
(* ... and a linear scan of the same definition, for long histories           *)
RECURSIVE DefJ(_, _, _, _, _)
DefJ(h, a, t, lt, acc) ==
  IF t > Len(h) THEN acc
  ELSE IF h[t][1] = NOSITE THEN DefJ(h, a, t + 1, lt, acc)
  ELSE IF lt # 0 /\ h[lt][1] # h[t][1] THEN DefJ(h, a, t + 1, t, acc \cup {<<a, h[lt][1], h[t][1], lt - 1, t - 1>>})
  ELSE DefJ(h, a, t + 1, t, acc)
DefJumps(h, a) == DefJ(h, a, 1, 0, {})
DefJumpsAll(H) == UNION {DefJumps(Col(H, a), a - 1) : a \in 1..NAtoms(H)}

JKey(j) == <<j[1], j[2], j[3], j[4]>>
AllInner(h) == \A t \in 1..Len(h) : h[t][2] = h[t][1]
(* a jump row is consistent with the recorded states *)
Consistent(h, j) == /\ j[4] >= 0 /\ j[5] <= Len(h) - 1 /\ j[4] < j[5]
                    /\ h[j[4] + 1][1] = j[2] /\ h[j[5] + 1][1] = j[3] /\ j[2] # j[3]
                    /\ j[2] # NOSITE /\ j[3] # NOSITE

-----------------------------------------------------------------------------
(* C05: aggregations.  Tables are sequences of rows; a move row has origin in *)
(* column 2 and destination in column 3.                                      *)
CountMoves(rows, i, j) == Cardinality({k \in DOMAIN rows : rows[k][2] = i /\ rows[k][3] = j})
Matrix(rows, S) == [i \in 1..S |-> [j \in 1..S |-> CountMoves(rows, i - 1, j - 1)]]
(* deviation D5: NOSITE (-1) indexes the last row/column, and fancy-index     *)
(* assignment makes the last writer win instead of adding                     *)
Fold(x, S) == IF x = NOSITE THEN S - 1 ELSE x
PairLess(p, q) == p[1] < q[1] \/ (p[1] = q[1] /\ p[2] < q[2])
FoldedMatrix(rows, S) ==
  [i \in 1..S |-> [j \in 1..S |->
     LET srcs == {<<x, y>> \in (-1..(S - 1)) \X (-1..(S - 1)) : Fold(x, S) = i - 1 /\ Fold(y, S) = j - 1 /\ CountMoves(rows, x, y) > 0}
     IN IF srcs = {} THEN 0
        ELSE LET last == CHOOSE p \in srcs : \A q \in srcs : q = p \/ PairLess(q, p)
             IN CountMoves(rows, last[1], last[2])]]
MatrixSum(M) == LET S == Len(M) IN
  LET RECURSIVE RowSum(_, _)
      RowSum(r, j) == IF j > S THEN 0 ELSE r[j] + RowSum(r, j + 1)
      RECURSIVE Tot(_)
      Tot(i) == IF i > S THEN 0 ELSE RowSum(M[i], 1) + Tot(i + 1)
  IN Tot(1)
EdgeSet(rows) == {<<rows[k][2], rows[k][3]>> : k \in DOMAIN rows}
(* labels: sequence over sites (1-based) of small integer label codes *)
LabelCount(rows, labels, la, lb) ==
  Cardinality({k \in DOMAIN rows : labels[rows[k][2] + 1] = la /\ labels[rows[k][3] + 1] = lb})
(* occupancy numerator: number of (frame, atom) with outer state = s; denominator T *)
OccNum(H, s) == Cardinality({<<t, a>> \in (1..Len(H)) \X (1..NAtoms(H)) : H[t][a][1] = s})
(* jump diffusivity numerator: sum over jumps of squared min-image site distance (units: G-units / N^2) *)
RECURSIVE JumpDistSum(_, _, _, _, _, _)
JumpDistSum(rows, k, sitepos, G, N, R) ==
  IF k > Len(rows) THEN 0
  ELSE DistSq(G, sitepos[rows[k][2] + 1], sitepos[rows[k][3] + 1], N, R) + JumpDistSum(rows, k + 1, sitepos, G, N, R)

-----------------------------------------------------------------------------
(* C19: time partitioning.  Where the boundaries fall is NOT part of the      *)
(* property; the checks below are on the parts the implementation returned.   *)
Concat(parts) == FlattenSeq(parts)
(* parts of an event table: each [offset, rows]; every original row exactly once, re-based, inside *)
RebasedRows(part) == [k \in DOMAIN part.rows |-> [part.rows[k] EXCEPT ![Len(part.rows[k])] = @ + part.offset]]

-----------------------------------------------------------------------------
(* C12: collective jumps.  A jump row is <<a, ss, ds, start, stop>>.          *)
JLess(x, y) == x[5] < y[5] \/ (x[5] = y[5] /\ x[4] < y[4])
RECURSIVE InsertJ(_, _)
InsertJ(s, x) == IF s = <<>> THEN <<x>> ELSE IF JLess(x, Head(s)) THEN <<x>> \o s ELSE <<Head(s)>> \o InsertJ(Tail(s), x)
RECURSIVE SortJ(_)
SortJ(s) == IF s = <<>> THEN <<>> ELSE InsertJ(SortJ(SubSeq(s, 1, Len(s) - 1)), s[Len(s)])
(* near[i][j]: whether some origin/destination site of jump i is within the cut-off of one of jump j *)
TimeClose(x, y, w) == y[4] - x[5] <= w /\ x[4] - y[5] <= w
(* transcription of the sorted scan; UseBreak = TRUE is the early exit as originally coded (D9) *)
RECURSIVE Scan(_, _, _, _, _, _)
Scan(ev, i, j, w, Near(_, _), UseBreak) ==
  IF j > Len(ev) THEN {}
  ELSE IF ev[j][4] - ev[i][5] > w THEN (IF UseBreak THEN {} ELSE Scan(ev, i, j + 1, w, Near, UseBreak))
  ELSE IF ev[i][4] - ev[j][5] > w THEN Scan(ev, i, j + 1, w, Near, UseBreak)
  ELSE IF ev[i][1] = ev[j][1] THEN Scan(ev, i, j + 1, w, Near, UseBreak)
  ELSE IF Near(ev[i], ev[j]) THEN {<<i, j>>} \cup Scan(ev, i, j + 1, w, Near, UseBreak)
  ELSE Scan(ev, i, j + 1, w, Near, UseBreak)
CodePairs(tbl, w, Near(_, _), UseBreak) ==
  LET ev == SortJ(tbl) IN UNION {Scan(ev, i, i + 1, w, Near, UseBreak) : i \in 1..(Len(ev) - 1)}
(* declarative: unordered pairs {i,j} (as i<j in the sorted order) *)
DeclPairs(tbl, w, Near(_, _)) ==
  LET ev == SortJ(tbl) IN {<<i, j>> \in (1..Len(ev)) \X (1..Len(ev)) :
        i < j /\ ev[i][1] # ev[j][1] /\ TimeClose(ev[i], ev[j], w) /\ (Near(ev[i], ev[j]) \/ Near(ev[j], ev[i]))}
RECURSIVE SetToSortedPairs(_)
SetToSortedPairs(s) == IF s = {} THEN <<>>
                       ELSE LET m == CHOOSE x \in s : \A y \in s : x = y \/ PairLess(x, y) IN <<m>> \o SetToSortedPairs(s \ {m})
InvolvedIn(pairs) == {p[1] : p \in pairs} \cup {p[2] : p \in pairs}
=============================================================================
