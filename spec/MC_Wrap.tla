------------------------------ MODULE MC_Wrap ------------------------------
(* Leg M for C01: every one-coordinate trajectory of up to T frames with raw  *)
(* values in -N..2N-1 (all lattice shifts in {-1,0,+1} of every wrapped       *)
(* value), run through the implementation-shaped mode switches of             *)
(* Trajectory.tla.  Everything is component-wise and per atom, so one atom    *)
(* and one axis are exhaustive for the arithmetic.                            *)
EXTENDS Trajectory, TLC
CONSTANTS N, T
VARIABLE raw
Init == raw = <<>>
Add == Len(raw) < T /\ \E x \in (-N)..(2 * N - 1) : raw' = Append(raw, x)
Spec == Init /\ [][Add]_raw
AsC(s) == [t \in DOMAIN s |-> <<<<s[t]>>>>]
O == NewPos(AsC(raw), <<1>>, 1, 1)
P == ToPos(O, N)
Dd == ToDisp(P, N)
Dom == Len(raw) >= 1 /\ NoHalfStep(WrapC(AsC(raw), N), N)
InCell == Len(raw) >= 1 => InCellC(P.coords, N)
SameModOne == Len(raw) >= 1 => SameModN(P.coords, AsC(raw), N)
StepsMinImage == Dom => StepsSmall(Dd.coords, N)
Telescoping == Dom => Telescopes(P.coords, Dd.coords, N) /\ ToPos(Dd, N).coords = P.coords
(* shifting any coordinate of any frame by whole cells changes neither displacements nor the unwrapped walk *)
ShiftInvariant == Dom => /\ Dd.coords = ToDisp(ToPos(NewPos(WrapC(AsC(raw), N), <<1>>, 1, 1), N), N).coords
                         /\ Cum(Dd.coords) = Walk(WrapC(AsC(raw), N), N)
(* displacements can be read directly from the raw object as well (positions need not be requested first) *)
DirectDisp == Dom => SameModN([t \in DOMAIN raw |-> FPlus(O.base, Cum(ToDisp(O, N).coords)[t])], AsC(raw), N)
=============================================================================
