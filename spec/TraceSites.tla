----------------------------- MODULE TraceSites -----------------------------
(* Leg B for C03 C04 C05 C19 (and the jump-table side of C12): validates      *)
(* recorded executions of the public API                                      *)
(*   transitions_between_sites -> .states/.inner_states -> .events ->         *)
(*   states_prev/next -> jumps(minimal_residence=m).data -> matrix/counter/   *)
(*   to_graph/occupancy/atom_locations/jump_diffusivity -> split/rates        *)
(* against the operators of Sites.tla.  One record per public call; records   *)
(* of one behaviour (same b) share the state st.  Verdicts are total: every   *)
(* record is consumed and judged, the verdict names the first failing clause. *)
EXTENDS Sites, TLC, Json, IOUtils, TLCExt

Log == ndJsonDeserialize(IOEnv.TRACE_FILE)

VARIABLES l, st, bid
vars == <<l, st, bid>>
Fresh == [hist |-> <<>>, parts |-> <<>>, m |-> 0]

T0(s) == Len(s.hist)
A0(s) == NAtoms(s.hist)
AtomCol(s, a) == Col(s.hist, a)

WellFormed(H) == /\ Len(H) >= 1
                 /\ \A t \in 1..Len(H) : Len(H[t]) = Len(H[1])
                 /\ \A t \in 1..Len(H) : \A a \in 1..Len(H[1]) : H[t][a][2] \in {NOSITE, H[t][a][1]}

(* ---- per-action verdicts: <<verdict, new state>> ---- *)
VHist(s, e) ==
  IF ~("overlap" \in DOMAIN e /\ e.overlap) /\ ~WellFormed(e.hist) THEN <<"inner-not-outer-or-none", s>>
  ELSE IF "intended" \in DOMAIN e /\ e.intended # e.hist THEN <<"states-differ-from-intended", [s EXCEPT !.hist = e.hist]>>
  ELSE <<"ok", [s EXCEPT !.hist = e.hist]>>

VEvents(s, e) ==
  LET exp == EvRows(s.hist) IN
  IF Len(e.rows) # Len(exp) THEN <<"event-count", s>>
  ELSE IF SeqToSet(e.rows) # SeqToSet(exp) THEN <<"event-rows", s>>
  ELSE IF \E a \in 1..A0(s) : Replay(AtomCol(s, a)[1], RowsOfAtom(e.rows, a - 1), T0(s)) # AtomCol(s, a) THEN <<"event-replay-order", s>>
  ELSE <<"ok", s>>

(* the plain counters of a Transitions object *)
VCounts(s, e) ==
  IF e.n_events # Len(EvRows(s.hist)) THEN <<"n-events", s>>
  ELSE IF e.n_states # T0(s) THEN <<"n-states", s>>
  ELSE IF e.n_floating # A0(s) THEN <<"n-floating", s>>
  ELSE IF e.n_sites # e.S THEN <<"n-sites", s>>
  ELSE <<"ok", s>>

VFill(s, e) ==
  LET exp == [a \in 1..A0(s) |-> LET x == [t \in 1..T0(s) |-> s.hist[t][a][1]] IN IF e.act = "Prev" THEN FFill(x) ELSE BFill(x)]
      got == [a \in 1..A0(s) |-> [t \in 1..T0(s) |-> e.arr[t][a]]]
      shapeOk == Len(e.arr) = T0(s) /\ \A t \in 1..Len(e.arr) : Len(e.arr[t]) = A0(s)
  IN IF ~shapeOk THEN <<IF e.act = "Prev" THEN "states-prev-shape" ELSE "states-next-shape", s>>
     ELSE IF got = exp THEN <<"ok", s>> ELSE <<IF e.act = "Prev" THEN "states-prev" ELSE "states-next", s>>

VJumps(s, e) ==
  LET exp == SeqToSet(JumpRowsOfHist(s.hist, e.m))
      got == SeqToSet(e.rows)
      def == DefJumpsAll(s.hist)
      allinner == \A a \in 1..A0(s) : AllInner(AtomCol(s, a))
  IN IF Cardinality(got) # Len(e.rows) THEN <<"jump-duplicate", s>>
     ELSE IF e.m = 0 /\ allinner /\ got # def THEN <<"default-jumps-not-visited-site-changes", s>>
     ELSE IF ~({JKey(j) : j \in got} \subseteq {JKey(j) : j \in def}) THEN <<"jump-not-a-default-jump", s>>
     ELSE IF \E j \in got : ~Consistent(AtomCol(s, j[1] + 1), j) THEN <<"jump-inconsistent-with-states", s>>
     ELSE IF got # exp THEN <<"jump-classifier", s>>
     ELSE <<"ok", [s EXCEPT !.m = e.m]>>

(* raising minimal residence never adds jumps: e.rows2 observed for e.m2 > e.m *)
VMono(s, e) == IF SeqToSet(e.rows2) \subseteq SeqToSet(e.rows) THEN <<"ok", s>> ELSE <<"residence-not-monotone", s>>

VMatrix(s, e) ==
  IF e.kind = "jumps"
  THEN LET rows == JumpRowsOfHist(s.hist, e.m) IN
       IF e.M # Matrix(rows, e.S) THEN <<"jump-matrix", s>>
       ELSE IF MatrixSum(e.M) # e.njumps THEN <<"jump-matrix-sum", s>>
       ELSE <<"ok", s>>
  ELSE LET rows == EvRows(s.hist) IN
       IF e.M = Matrix(rows, e.S) THEN <<"ok", s>>
       ELSE IF e.M = FoldedMatrix(rows, e.S) THEN <<"known:D5", s>>
       ELSE <<"transition-matrix", s>>

VCounter(s, e) ==
  LET rows == JumpRowsOfHist(s.hist, e.m)
      labs == SeqToSet(e.labels)
      got(la, lb) == LET c == {k \in DOMAIN e.counts : e.counts[k][1] = la /\ e.counts[k][2] = lb}
                     IN IF c = {} THEN 0 ELSE e.counts[CHOOSE k \in c : TRUE][3]
  IN IF \A la \in labs, lb \in labs : got(la, lb) = LabelCount(rows, e.labels, la, lb)
     THEN <<"ok", s>> ELSE <<"label-counter", s>>

VEdges(s, e) == IF SeqToSet(e.edges) = EdgeSet(JumpRowsOfHist(s.hist, e.m)) /\ Len(e.edges) = Cardinality(SeqToSet(e.edges))
                THEN <<"ok", s>> ELSE <<"graph-edges", s>>

(* to_graph: the recovered count on edge (u, v) is the number of jumps u -> v *)
VEdgeCounts(s, e) == LET rows == JumpRowsOfHist(s.hist, e.m) IN
  IF \A k \in DOMAIN e.counts : e.counts[k][3] = CountMoves(rows, e.counts[k][1], e.counts[k][2]) THEN <<"ok", s>> ELSE <<"graph-edge-weights", s>>

VOcc(s, e) == IF \A k \in 1..Len(e.num) : e.num[k] = OccNum(s.hist, k - 1) THEN <<"ok", s>> ELSE <<"occupancy", s>>

VAtomLoc(s, e) ==
  IF \A k \in DOMAIN e.byLabel :
       LET la == e.byLabel[k][1]
           RECURSIVE Sum(_)
           Sum(i) == IF i > Len(e.labels) THEN 0 ELSE (IF e.labels[i] = la THEN OccNum(s.hist, i - 1) ELSE 0) + Sum(i + 1)
       IN e.byLabel[k][2] = Sum(1)
  THEN <<"ok", s>> ELSE <<"atom-locations", s>>

(* occupancy_by_site_type: e.byLabel[k] = <<label, round(value * T * n_sites_with_label)>> = sum of the occupancy numerators *)
VOccType(s, e) ==
  IF \A k \in DOMAIN e.byLabel :
       LET la == e.byLabel[k][1]
           RECURSIVE Sum(_)
           Sum(i) == IF i > Len(e.labels) THEN 0 ELSE (IF e.labels[i] = la THEN OccNum(s.hist, i - 1) ELSE 0) + Sum(i + 1)
       IN e.byLabel[k][2] = Sum(1)
  THEN <<"ok", s>> ELSE <<"occupancy-by-site-type", s>>

VJumpDiff(s, e) ==
  LET rows == JumpRowsOfHist(s.hist, e.m) IN
  IF e.num = JumpDistSum(rows, 1, e.sites, e.G, e.N, e.R) THEN <<"ok", s>> ELSE <<"jump-diffusivity", s>>

(* Split: e.parts[i] = [hist, rows, offset, jumps, nojumps]; offsets are a witness found by the harness *)
VSplit(s, e) ==
  LET P == e.parts
      (* the thing being split: the behaviour's history, or (nested split) a part given by its own states and event table *)
      wholeSeq == IF "whole" \in DOMAIN e THEN e.whole ELSE EvRows(s.hist)
      wholeHist == IF "whist" \in DOMAIN e THEN e.whist ELSE s.hist
      whole == SeqToSet(wholeSeq)
      back(i) == {[r EXCEPT ![6] = @ + P[i].offset] : r \in SeqToSet(P[i].rows)}
      wj == SeqToSet(JumpRows(wholeSeq, A0(s), e.m))
      jback(i) == {<<j[1], j[2], j[3], j[4] + P[i].offset, j[5] + P[i].offset>> : j \in SeqToSet(P[i].jumps)}
      RECURSIVE NRows(_)
      NRows(i) == IF i > Len(P) THEN 0 ELSE Len(P[i].rows) + NRows(i + 1)
      RECURSIVE NJ(_)
      NJ(i) == IF i > Len(P) THEN 0 ELSE Len(P[i].jumps) + NJ(i + 1)
      RECURSIVE TF(_, _)
      TF(i, c) == IF i > Len(P) THEN 0 ELSE P[i].tframes[c] + TF(i + 1, c)
      s2 == [s EXCEPT !.parts = P, !.m = e.m]          \* remembered whatever the verdict, for the Rates record that follows
  IN IF Len(P) # e.k THEN <<"split-part-count", s2>>
     ELSE IF Concat([i \in 1..Len(P) |-> P[i].hist]) # wholeHist THEN <<"split-states-concat", s2>>
     ELSE IF \E i \in 1..Len(P) : P[i].offset < 0 THEN <<"split-events-no-offset", s2>>
     ELSE IF NRows(1) # Cardinality(whole) \/ UNION {back(i) : i \in 1..Len(P)} # whole THEN <<"split-events-exactly-once", s2>>
     ELSE IF \E i \in 1..Len(P) : \E r \in SeqToSet(P[i].rows) : r[6] < 0 THEN <<"split-time-negative", s2>>
     ELSE IF \E i \in 1..(Len(P) - 1) : \E r \in back(i), q \in back(i + 1) : q[6] < r[6] THEN <<"split-not-chronological", s2>>
     ELSE IF \E i \in 1..(Len(P) - 1) : P[i].offset > P[i + 1].offset THEN <<"split-not-chronological", s2>>
     ELSE IF \E i \in 1..Len(P) : SeqToSet(P[i].jumps) # SeqToSet(JumpRows(P[i].rows, A0(s), e.m)) THEN <<"split-part-jumps", s2>>
     ELSE IF \E i \in 1..Len(P) : ~(jback(i) \subseteq wj) THEN <<"split-part-jump-not-in-whole", s2>>
     ELSE IF NJ(1) > Cardinality(wj) THEN <<"split-jump-counts-exceed", s2>>
     (* the trajectories carried by the parts are frame ranges of the source's: together they hold no more frames than it has *)
     ELSE IF "tframes" \in DOMAIN e /\ (TF(1, 1) > e.tframes[1] \/ TF(1, 2) > e.tframes[2]) THEN <<"split-part-trajectories-hold-more-frames-than-the-whole", s2>>
     ELSE <<"ok", s2>>

(* rates(k): e.sums[x] = <<la, lb, sum over parts of the per-part count, k*sum(c^2) - (sum c)^2>> *)
VRates(s, e) ==
  LET P == s.parts
      (* expected per-part counts come from the spec: classifier on the part's events with the residence of the whole *)
      cnt(i, la, lb) == LabelCount(JumpRows(P[i].rows, A0(s), s.m), e.labels, la, lb)
      whole(la, lb) == LabelCount(JumpRowsOfHist(s.hist, s.m), e.labels, la, lb)
      RECURSIVE S1(_, _, _)
      S1(i, la, lb) == IF i > Len(P) THEN 0 ELSE cnt(i, la, lb) + S1(i + 1, la, lb)
      RECURSIVE S2(_, _, _)
      S2(i, la, lb) == IF i > Len(P) THEN 0 ELSE cnt(i, la, lb) * cnt(i, la, lb) + S2(i + 1, la, lb)
      labs == {e.labels[i] : i \in DOMAIN e.labels}
      listed == {<<e.sums[x][1], e.sums[x][2]>> : x \in DOMAIN e.sums}
  IN IF \E x \in DOMAIN e.sums : e.sums[x][3] > whole(e.sums[x][1], e.sums[x][2]) THEN <<"rates-count-more-jumps-than-the-counter", s>>
     (* a consistent aggregation of the jump matrix: every ORDERED pair of labels between which a part counts a jump has its row *)
     ELSE IF \E la \in labs, lb \in labs : S1(1, la, lb) > 0 /\ <<la, lb>> \notin listed THEN <<"rates-row-missing-for-a-label-pair-with-jumps", s>>
     ELSE IF \A x \in DOMAIN e.sums : LET la == e.sums[x][1] lb == e.sums[x][2] IN
          /\ e.sums[x][3] = S1(1, la, lb)
          /\ e.sums[x][4] = Len(P) * S2(1, la, lb) - S1(1, la, lb) * S1(1, la, lb)
     THEN <<"ok", s>> ELSE <<"rates", s>>

(* trajectory parts: e.ranges[i] = <<start, stop>> frame ranges found by the harness (witness), e.T, e.equal *)
VTrajSplit(s, e) ==
  LET Rg == e.ranges IN
  IF Len(Rg) # e.k THEN <<"trajsplit-part-count", s>>
  ELSE IF \E i \in 1..Len(Rg) : Rg[i][1] < 0 \/ Rg[i][2] > e.T \/ Rg[i][1] >= Rg[i][2] THEN <<"trajsplit-not-a-frame-range", s>>
  ELSE IF \E i \in 1..(Len(Rg) - 1) : Rg[i][2] > Rg[i + 1][1] THEN <<"trajsplit-overlap-or-order", s>>
  ELSE IF e.equal /\ \E i \in 1..Len(Rg) : Rg[i][2] - Rg[i][1] # Rg[1][2] - Rg[1][1] THEN <<"trajsplit-not-equal-length", s>>
  (* "the corresponding frames": unless trimmed to equal length the parts follow one another without a gap from the first frame to the   *)
  (* end of the source (the documented partition np.linspace(0, len - 1, n + 1) stops at the last frame, which it leaves out; a       *)
  (* partition that includes it is accepted as well).  No frame in between is lost.                                                *)
  ELSE IF ~e.equal /\ (Rg[1][1] # 0 \/ (\E i \in 1..(Len(Rg) - 1) : Rg[i][2] # Rg[i + 1][1]) \/ Rg[Len(Rg)][2] \notin {e.T - 1, e.T})
       THEN <<"trajsplit-parts-do-not-tile-the-source", s>>
  ELSE <<"ok", s>>

Verdict(s, e) ==
  CASE e.act = "Hist" -> VHist(s, e)
    [] e.act = "Events" -> VEvents(s, e)
    [] e.act = "Counts" -> VCounts(s, e)
    [] e.act \in {"Prev", "Next"} -> VFill(s, e)
    [] e.act = "Jumps" -> VJumps(s, e)
    [] e.act = "Mono" -> VMono(s, e)
    [] e.act = "Matrix" -> VMatrix(s, e)
    [] e.act = "Counter" -> VCounter(s, e)
    [] e.act = "Edges" -> VEdges(s, e)
    [] e.act = "Occ" -> VOcc(s, e)
    [] e.act = "EdgeCounts" -> VEdgeCounts(s, e)
    [] e.act = "AtomLoc" -> VAtomLoc(s, e)
    [] e.act = "OccType" -> VOccType(s, e)
    [] e.act = "JumpDiff" -> VJumpDiff(s, e)
    [] e.act = "Split" -> VSplit(s, e)
    [] e.act = "Rates" -> VRates(s, e)
    [] e.act = "TrajSplit" -> VTrajSplit(s, e)
    [] OTHER -> <<"unknown-action", s>>

Init == l = 1 /\ st = Fresh /\ bid = -1
TStep == /\ l <= Len(Log)
         /\ LET e == Log[l]
                s0 == IF e.b # bid THEN Fresh ELSE st
                v == Verdict(s0, e)
            IN /\ PrintT(<<"V", l, v[1], e.act>>)
               /\ st' = v[2]
               /\ bid' = e.b
         /\ l' = l + 1
Spec == Init /\ [][TStep]_vars
Consumed == TLCGet("stats").diameter - 1 = Len(Log)
=============================================================================
