----------------------------- MODULE TraceGrid -----------------------------
(* Leg B for C08 C09 C10: recorded results of trajectory_to_volume,           *)
(* get_free_energy / free_energy_graph, optimal_path and                      *)
(* optimal_percolating_path judged against Grid.tla.                          *)
EXTENDS Grid, TLC, Json, IOUtils, TLCExt
Log == ndJsonDeserialize(IOEnv.TRACE_FILE)
VARIABLE l
SeqSet(s) == {s[i] : i \in DOMAIN s}
V3(s) == <<s[1], s[2], s[3]>>

VVolume(e) ==
  LET dims == V3(e.dims)
      exp == Density(e.pos, dims, e.N)
      got == {<<V3(e.cells[i]), e.cells[i][4]>> : i \in DOMAIN e.cells}
  IN IF \E c \in 1..3 : dims[c] # NVox(e.L[c], e.res) THEN "grid-size"
     ELSE IF \E c \in 1..3 : ~ResolutionBand(e.L[c], e.res, dims[c]) THEN "voxel-edge-not-in-[res,2res)"
     ELSE IF e.total # Len(e.pos) * Len(e.pos[1]) THEN "samples-not-conserved"
     ELSE IF got # exp THEN "voxel-mapping"
     ELSE "ok"

VRoundTrip(e) == IF e.back = [v \in 1..e.n |-> v - 1] /\ RoundTrip(e.n) THEN "ok" ELSE "voxel-round-trip"

VFree(e) ==
  LET C == e.counts
      vox == Voxels(C)
      visited == {v \in vox : At(C, v) > 0}
      nodes(s) == {V3(s[i]) : i \in DOMAIN s}
  IN IF ~e.finite THEN "free-energy-not-finite"
     ELSE IF nodes(e.nodesDefault) # visited \/ nodes(e.nodes1e7) # visited THEN "graph-nodes-not-exactly-visited-voxels"
     ELSE IF \E i \in DOMAIN e.recovered : e.recovered[i][4] # At(C, V3(e.recovered[i])) THEN "exp(-F/kT)-does-not-recover-probability"
     ELSE IF {V3(e.recovered[i]) : i \in DOMAIN e.recovered} # visited THEN "harness-recovered-set"
     ELSE IF \E u \in vox, v \in vox : At(C, u) > At(C, v) /\ At(e.rank, u) > At(e.rank, v) THEN "denser-voxel-has-higher-free-energy"
     ELSE IF \E u \in vox \ visited : \E v \in visited : At(e.rank, u) <= At(e.rank, v) THEN "unvisited-voxel-not-prohibitive"
     ELSE "ok"

MovesOf(e) == IF e.diagonal THEN Moves26 ELSE Moves6
VPath(e) ==
  LET E == e.E  mv == MovesOf(e)  s == V3(e.start)  t == V3(e.stop)
      kind == IF e.kind = "peak" THEN "sum" ELSE e.kind
      best == MinCost(E, mv, kind, s, t)
      sites == [i \in DOMAIN e.sites |-> V3(e.sites[i])]
  IN IF e.raised THEN (IF best = Inf THEN "ok" ELSE "no-path-reported-but-one-exists")
     ELSE IF Len(sites) = 0 \/ sites[1] # s \/ sites[Len(sites)] # t THEN "path-endpoints"
     ELSE IF ~ValidWalk(E, mv, sites) THEN (IF ValidWalk(E, Moves26, sites) THEN "path-uses-diagonal-move-when-disabled-or-missing" ELSE "path-not-a-walk-on-the-periodic-grid")
     ELSE IF e.energy # [i \in DOMAIN sites |-> At(E, sites[i])] THEN "reported-energies"
     ELSE IF "secondary" \in DOMAIN e /\ ~e.secondary THEN "total-energy-or-end-sites-disagree-with-the-path"
     ELSE IF e.kind = "peak"
          THEN (IF PeakOf(E, sites) = MinPeak(E, mv, s, t) THEN "ok"
                ELSE IF WalkCost("sum", E, sites, 1) = best THEN "known:D7" ELSE "path-not-minimal")
     ELSE IF WalkCost(kind, E, sites, 1) # best THEN (IF e.diagonal /\ WalkCost(kind, E, sites, 1) = MinCost(E, Moves22, kind, s, t) THEN "path-not-minimal-missing-corner-moves" ELSE "path-not-minimal")
     ELSE "ok"

VPerc(e) ==
  LET E2 == Tile(e.E, e.perc)
      d == Dims(e.E)
      image == <<d[1] * e.perc[1], d[2] * e.perc[2], d[3] * e.perc[3]>>
      tgt(p) == <<p[1] + image[1], p[2] + image[2], p[3] + image[3]>>
      peaks == {V3(e.peaks[i]) : i \in DOMAIN e.peaks}
      dbl(p) == LET c == MinCost(E2, Moves26, "sum", p, tgt(p)) IN IF c = Inf THEN Inf ELSE c + At(E2, p) + At(E2, tgt(p))
      bestD == MinSet({dbl(p) : p \in peaks})
      sites == [i \in DOMAIN e.sites |-> V3(e.sites[i])]
  IN IF e.none THEN (IF bestD = Inf THEN "ok" ELSE "no-percolating-path-reported-but-one-exists")
     ELSE IF sites[1] \notin peaks THEN "percolation-start-not-a-peak"
     ELSE IF sites[Len(sites)] # tgt(sites[1]) THEN "percolation-stop-not-the-image-one-cell-away"
     ELSE IF ~ValidWalk(E2, Moves26, sites) THEN "path-not-a-walk-on-the-periodic-grid"
     ELSE IF 2 * NodeSum(E2, sites, 1) # bestD THEN "percolating-path-not-cheapest-over-peaks"
     ELSE IF e.energy # [i \in DOMAIN sites |-> At(E2, sites[i])] THEN "reported-energies"
     ELSE IF "secondary" \in DOMAIN e /\ ~e.secondary THEN "total-energy-or-end-sites-disagree-with-the-path"
     ELSE IF e.wrapped # [i \in DOMAIN sites |-> WrapVox(sites[i], d)] THEN "wrapped-sites-not-inside-grid"
     ELSE IF ~e.fracInCell THEN "fractional-sites-not-inside-cell"
     ELSE "ok"

(* beyond C10: optimal_n_paths.  e.paths: list of site lists; e.n, e.num/e.den = min_diff as a fraction *)
Shared(p, q) == Cardinality({i \in DOMAIN p : \E j \in DOMAIN q : q[j] = p[i]})
(* calculate_path_difference: 1 - (#nodes of the shorter path that occur in the longer) / len(shorter) >= num/den *)
FarEnough(p, q, num, den) == LET sh == IF Len(p) <= Len(q) THEN p ELSE q
                                 lg == IF Len(p) <= Len(q) THEN q ELSE p
                             IN (Len(sh) - Shared(sh, lg)) * den >= num * Len(sh)
VNPaths(e) ==
  LET E == e.E  mv == MovesOf(e)  s == V3(e.start)  t == V3(e.stop)
      P == [k \in DOMAIN e.paths |-> [i \in DOMAIN e.paths[k] |-> V3(e.paths[k][i])]]
      cost(k) == WalkCost("sum", E, P[k], 1)
  IN IF e.raised THEN (IF MinCost(E, mv, "sum", s, t) = Inf THEN "ok" ELSE "no-path-reported-but-one-exists")
     ELSE IF Len(P) = 0 THEN "npaths-none-returned"
     ELSE IF \E k \in DOMAIN P : Len(P[k]) = 0 \/ P[k][1] # s \/ P[k][Len(P[k])] # t \/ ~ValidWalk(E, mv, P[k]) THEN "npaths-not-a-valid-path"
     (* the first path is THE optimal path under the selected method's criterion (C10); the others are ranked by summed energy *)
     ELSE IF WalkCost(e.kind0, E, P[1], 1) # MinCost(E, mv, e.kind0, s, t) THEN "npaths-first-not-optimal"
     ELSE IF Len(P) > e.n THEN "npaths-count"
     ELSE IF \E k \in 2..Len(P) : \E j \in 1..(k - 1) : ~FarEnough(P[k], P[j], e.num, e.den) THEN "npaths-too-similar"
     ELSE IF \E k \in 2..(Len(P) - 1) : cost(k) > cost(k + 1) THEN "npaths-not-in-order-of-cost"
     ELSE IF e.kind0 = "sum" /\ \E k \in 2..Len(P) : cost(k) < cost(1) THEN "npaths-cheaper-than-optimal"
     ELSE "ok"

Verdict(e) == CASE e.act = "Volume" -> VVolume(e)
                [] e.act = "RoundTrip" -> VRoundTrip(e)
                [] e.act = "FreeEnergy" -> VFree(e)
                [] e.act = "Path" -> VPath(e)
                [] e.act = "Percolate" -> VPerc(e)
                [] e.act = "NPaths" -> VNPaths(e)
                [] OTHER -> "unknown-action"
Init == l = 1
TStep == /\ l <= Len(Log)
         /\ PrintT(<<"V", l, Verdict(Log[l]), Log[l].act>>)
         /\ l' = l + 1
Spec == Init /\ [][TStep]_l
Consumed == TLCGet("stats").diameter - 1 = Len(Log)
=============================================================================
