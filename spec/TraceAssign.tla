---------------------------- MODULE TraceAssign ----------------------------
(* Leg B for C02 (and the geometry side of C07): recorded .states and         *)
(* .inner_states of transitions_between_sites judged against Sites!AssignAtom *)
(* with exact integer minimum-image distances.                                *)
EXTENDS Sites, TLC, Json, IOUtils, TLCExt
Log == ndJsonDeserialize(IOEnv.TRACE_FILE)
VARIABLES l
(* e: G N R sites thr thrIn pos[t][a] hist[t][a]=<<outer,inner>> auto (bool) raised (bool) tooClose (bool) *)
VAssign(e) ==
  IF e.raised THEN (IF e.tooClose THEN "ok" ELSE "unexpected-sites-too-close-error")
  ELSE IF e.tooClose THEN "auto-radius-too-close-not-rejected"
  ELSE
  LET T == Len(e.pos)
      A == Len(e.pos[1])
      exO(t, a) == AssignAtom(e.G, e.N, e.R, e.pos[t][a], e.sites, e.thr)
      exI(t, a) == AssignAtom(e.G, e.N, e.R, e.pos[t][a], e.sites, e.thrIn)
      q == MinSiteDistSq(e.G, e.N, e.R, e.sites)
  IN IF \E t \in 1..T, a \in 1..A : Cardinality(SitesWithin(e.G, e.N, e.R, e.pos[t][a], e.sites, e.thr)) > 1
        THEN (IF e.auto THEN "auto-radius-spheres-overlap" ELSE "harness-overlapping-spheres")
     ELSE IF e.auto /\ Len(e.sites) > 1 /\ \E s \in 1..Len(e.sites) : 4 * (e.thr[s] - 1) >= q THEN "auto-radius-spheres-overlap"
     ELSE IF \E t \in 1..T, a \in 1..A : e.hist[t][a][2] \notin {NOSITE, e.hist[t][a][1]} THEN "inner-not-outer-or-none"
     ELSE IF \E t \in 1..T, a \in 1..A : e.hist[t][a][1] # exO(t, a) THEN "site-assignment"
     ELSE IF \E t \in 1..T, a \in 1..A : e.hist[t][a][2] # exI(t, a) THEN "inner-site-assignment"
     ELSE "ok"
Init == l = 1
TStep == /\ l <= Len(Log)
         /\ PrintT(<<"V", l, VAssign(Log[l]), "Assign">>)
         /\ l' = l + 1
Spec == Init /\ [][TStep]_l
Consumed == TLCGet("stats").diameter - 1 = Len(Log)
=============================================================================
