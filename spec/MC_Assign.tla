----------------------------- MODULE MC_Assign -----------------------------
(* Leg M for C02: small exact instance.  Site 1 at a fixed grid point, site 2 *)
(* anywhere; thresholds chosen among all values satisfying NonOverlap; every  *)
(* atom position.                                                             *)
EXTENDS Sites, TLC
CONSTANTS N, Fam, MaxThr
GFam == IF Fam = 0 THEN <<<<4, 0, 0>>, <<0, 4, 0>>, <<0, 0, 4>>>>
        ELSE IF Fam = 1 THEN <<<<4, -2, 0>>, <<-2, 4, 0>>, <<0, 0, 5>>>>
        ELSE <<<<4, 1, 1>>, <<1, 5, -1>>, <<1, -1, 6>>>>
RFam == IF Fam = 0 THEN 1 ELSE 2
Pts == (0..(N - 1)) \X (0..(N - 1)) \X (0..(N - 1))
VARIABLES s2, thr, innerNum
(* one initial state; the instance is chosen by the first step so that TLC's workers share the invariant evaluation *)
Init == s2 = <<0, 0, 0>> /\ thr = 0 /\ innerNum = 0
(* two steps so that TLC's workers share the work: TLC checks invariants in the worker that generates a state *)
PickSite == /\ s2 = <<0, 0, 0>>
            /\ \E p \in Pts \ {<<0, 0, 0>>} : s2' = p
            /\ UNCHANGED <<thr, innerNum>>
PickThr == /\ s2 # <<0, 0, 0>> /\ thr = 0
           /\ \E x \in 1..MaxThr : \E i \in {1, 2, 4} :
                /\ NonOverlap(x, x, DistSq(GFam, <<0, 0, 0>>, s2, N, RFam))
                /\ thr' = x /\ innerNum' = i           \* inner threshold = thr * innerNum / 4 (rounded up)
           /\ UNCHANGED s2
Spec == Init /\ [][PickSite \/ PickThr]_<<s2, thr, innerNum>>
SitesSeq == <<<<0, 0, 0>>, s2>>
Thr == <<thr, thr>>
ThrIn == LET x == (thr * innerNum + 3) \div 4 IN <<x, x>>
Q == DistSq(GFam, SitesSeq[1], SitesSeq[2], N, RFam)
Admissible == thr > 0 /\ NonOverlap(thr, thr, Q)
UniqueUnderNonOverlap == Admissible => \A p \in Pts : Cardinality(SitesWithin(GFam, N, RFam, p, SitesSeq, Thr)) <= 1
InnerIsOuterOrNone == Admissible => \A p \in Pts :
    LET o == AssignAtom(GFam, N, RFam, p, SitesSeq, Thr)
        i == AssignAtom(GFam, N, RFam, p, SitesSeq, ThrIn)
    IN i \in {NOSITE, o}
(* translating atoms and sites together by a grid vector changes nothing (C07 lemma) *)
TranslationInvariant == Admissible => \A p \in {q \in Pts : q[1] + q[2] + q[3] <= 3} : \A d \in {<<1, 0, 0>>, <<0, 2, 0>>, <<3, 1, 5>>} :
    AssignAtom(GFam, N, RFam, p, SitesSeq, Thr)
      = AssignAtom(GFam, N, RFam, Wrap(VAdd(p, d), N), <<Wrap(d, N), Wrap(VAdd(s2, d), N)>>, Thr)
=============================================================================
