----------------------------- MODULE GridLemmas -----------------------------
(* Unbounded versions (TLAPS) of the integer lemmas that MC_Walker evaluates   *)
(* on small domains: the voxel edge band and the voxel round trip of C08.     *)
EXTENDS Integers, TLAPS

NVox(L, res) == L \div res
ResolutionBand(L, res, n) == n >= 1 /\ n * res <= L /\ L < 2 * n * res
Bin(k, n, N) == (k * n) \div N

THEOREM BandHolds ==
  ASSUME NEW L \in Nat, NEW res \in Nat, res >= 1, L >= res
  PROVE  ResolutionBand(L, res, NVox(L, res))
<1> DEFINE n == L \div res
<1>1. n * res <= L /\ L < (n + 1) * res
  BY DEF n
<1>2. n >= 1
  BY <1>1
<1>3. (n + 1) * res <= 2 * n * res
  BY <1>2
<1> QED BY <1>1, <1>2, <1>3 DEF ResolutionBand, NVox

THEOREM RoundTripHolds ==
  ASSUME NEW n \in Nat, n >= 1, NEW v \in 0..(n - 1)
  PROVE  Bin(2 * v + 1, n, 2 * n) = v
<1>1. (2 * v + 1) * n = v * (2 * n) + n
  OBVIOUS
<1>2. n >= 0 /\ n < 2 * n
  OBVIOUS
<1> QED BY <1>1, <1>2 DEF Bin
=============================================================================
