----------------------------- MODULE TraceColl -----------------------------
(* Leg B for C12: recorded Collective(...) results judged against the         *)
(* declarative pair definition of Sites.tla with exact site distances.        *)
EXTENDS Sites, TLC, Json, IOUtils, TLCExt
Log == ndJsonDeserialize(IOEnv.TRACE_FILE)
VARIABLES l
(* e: jumps (rows), window, sites (grid ints), G, N, R, thr (ceil(cut^2 N^2)), pairs (observed [rowi,rowj]), nsolo, ncoll *)
VColl(e) ==
  LET S == Len(e.sites)
      nearS == [a \in 1..S |-> [b \in 1..S |-> DistSq(e.G, e.sites[a], e.sites[b], e.N, e.R) < e.thr]]
      NearJ(x, y) == \E a \in {x[2], x[3]}, b \in {y[2], y[3]} : nearS[a + 1][b + 1]
      ev == SortJ(e.jumps)
      P == DeclPairs(e.jumps, e.window, NearJ)
      exp == {{ev[p[1]], ev[p[2]]} : p \in P}
      got == {{e.pairs[k][1], e.pairs[k][2]} : k \in DOMAIN e.pairs}
      involved == UNION exp
  IN IF Cardinality(SeqToSet(e.jumps)) # Len(e.jumps) THEN "harness-duplicate-jump-rows"
     ELSE IF \E k \in DOMAIN e.pairs : e.pairs[k][1][1] = e.pairs[k][2][1] THEN "pair-of-same-atom"
     ELSE IF Cardinality(got) # Len(e.pairs) THEN "pair-reported-twice"
     ELSE IF \E q \in got \ exp : TRUE THEN "pair-not-collective"
     ELSE IF \E q \in exp \ got : TRUE THEN "pair-missed"
     ELSE IF e.nsolo # Len(e.jumps) - Cardinality(involved) THEN "solo-count"
     ELSE IF e.nsolo + e.ncoll # Len(e.jumps) THEN "solo-plus-collective"
     ELSE "ok"
Init == l = 1
TStep == /\ l <= Len(Log)
         /\ PrintT(<<"V", l, VColl(Log[l]), "Collective">>)
         /\ l' = l + 1
Spec == Init /\ [][TStep]_l
Consumed == TLCGet("stats").diameter - 1 = Len(Log)
=============================================================================
