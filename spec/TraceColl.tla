----------------------------- MODULE TraceColl -----------------------------
(* Leg B for C12: recorded Collective(...) results judged against the         *)
(* declarative pair definition of Sites.tla with exact site distances.        *)
EXTENDS Sites, TLC, Json, IOUtils, TLCExt
Log == ndJsonDeserialize(IOEnv.TRACE_FILE)
VARIABLES l
(* e: jumps (rows), window, sites (grid ints), G, N, R, thr (ceil(cut^2 N^2)), pairs (observed [rowi,rowj]), nsolo, ncoll *)
(* beyond C12: aggregations of the pair list.  e.labels: label code per site; e.spm: observed site_pair_count_matrix as        *)
(* [[la, lb, lc, ld, count], ...] (non-zero entries); e.multi: observed multiple_collective as [[s1, d1, s2, d2, count], ...]     *)
(* Orientation (which jump of a pair comes first) follows the sort order, which is arbitrary for ties: compared symmetrised.      *)
TypeOf(e, j) == <<e.labels[j[2] + 1], e.labels[j[3] + 1]>>
AggOk(e, ev, P) ==
  LET types == {TypeOf(e, ev[i]) : i \in DOMAIN ev}
      cnt(t1, t2) == Cardinality({p \in P : TypeOf(e, ev[p[1]]) = t1 /\ TypeOf(e, ev[p[2]]) = t2})
      sym(t1, t2) == IF t1 = t2 THEN cnt(t1, t1) ELSE cnt(t1, t2) + cnt(t2, t1)
      obs(t1, t2) == LET m == {k \in DOMAIN e.spm : <<e.spm[k][1], e.spm[k][2]>> = t1 /\ <<e.spm[k][3], e.spm[k][4]>> = t2}
                     IN IF m = {} THEN 0 ELSE e.spm[CHOOSE k \in m : TRUE][5]
      osym(t1, t2) == IF t1 = t2 THEN obs(t1, t1) ELSE obs(t1, t2) + obs(t2, t1)
      RECURSIVE Tot(_)
      Tot(k) == IF k > Len(e.spm) THEN 0 ELSE e.spm[k][5] + Tot(k + 1)
      (* multiple_collective: unordered pairs of (start, destination) moves with their multiplicity *)
      mv(j) == <<j[2], j[3]>>
      upair(p) == {mv(ev[p[1]]), mv(ev[p[2]])}
      ups == {upair(p) : p \in P}
      mexp(u) == Cardinality({p \in P : upair(p) = u})
      mobs(u) == LET m == {k \in DOMAIN e.multi : {<<e.multi[k][1], e.multi[k][2]>>, <<e.multi[k][3], e.multi[k][4]>>} = u}
                 IN IF m = {} THEN 0 ELSE e.multi[CHOOSE k \in m : TRUE][5]
  IN /\ Tot(1) = Cardinality(P)
     /\ \A t1 \in types, t2 \in types : osym(t1, t2) = sym(t1, t2)
     /\ \A u \in ups : mobs(u) = mexp(u)
     /\ \A k \in DOMAIN e.multi : {<<e.multi[k][1], e.multi[k][2]>>, <<e.multi[k][3], e.multi[k][4]>>} \in ups
VColl(e) ==
  LET S == Len(e.sites)
      dsq(a, b) == IF "pbc" \in DOMAIN e THEN DistSqPbc(e.G, e.sites[a], e.sites[b], e.N, e.R, e.pbc)
                   ELSE DistSq(e.G, e.sites[a], e.sites[b], e.N, e.R)
      nearS == [a \in 1..S |-> [b \in 1..S |-> dsq(a, b) < e.thr]]
      NearJ(x, y) == \E a \in {x[2], x[3]}, b \in {y[2], y[3]} : nearS[a + 1][b + 1]
      ev == SortJ(e.jumps)
      P == DeclPairs(e.jumps, e.window, NearJ)
      exp == {{ev[p[1]], ev[p[2]]} : p \in P}
      got == {{e.pairs[k][1], e.pairs[k][2]} : k \in DOMAIN e.pairs}
      involved == UNION exp
  IN IF Cardinality(SeqToSet(e.jumps)) # Len(e.jumps) THEN "harness-duplicate-jump-rows"
     ELSE IF \E k \in DOMAIN e.pairs : e.pairs[k][1][1] = e.pairs[k][2][1] THEN "pair-of-same-atom"
     ELSE IF Cardinality(got) # Len(e.pairs) THEN "pair-reported-twice"
     ELSE IF \E q \in got \ exp : TRUE THEN "pair-not-collective"
     ELSE IF \E q \in exp \ got : TRUE THEN "pair-missed"
     ELSE IF e.nsolo # Len(e.jumps) - Cardinality(involved) THEN "solo-count"
     ELSE IF e.nsolo + e.ncoll # Len(e.jumps) THEN "solo-plus-collective"
     ELSE IF "labels" \in DOMAIN e /\ ~AggOk(e, ev, P) THEN "collective-aggregations"
     ELSE "ok"
Init == l = 1
TStep == /\ l <= Len(Log)
         /\ PrintT(<<"V", l, VColl(Log[l]), "Collective">>)
         /\ l' = l + 1
Spec == Init /\ [][TStep]_l
Consumed == TLCGet("stats").diameter - 1 = Len(Log)
=============================================================================
