"""Drivers for C08 (density volumes), C09 (free energy), C10 (paths): build inputs, call the public API, record for TraceGrid."""
from __future__ import annotations

import math

import numpy as np

from . import gen

BLOCKED = -1
BLOCK_ENERGY = 3.0e7          # above the 1e7 threshold used by FreeEnergyVolume.optimal_path


def volume_record(rng, b, fam, orient, dyadic=False):
    from pymatgen.core import Lattice, Species
    from gemdat import Trajectory, trajectory_to_volume
    G = gen.FAMILIES[fam]
    M = gen.lattice_matrix(G, orient, rng)
    lens = [int(round(math.sqrt(G[i][i]))) for i in range(3)]        # integer cell lengths in Angstrom
    T, A = int(rng.integers(1, 8)), int(rng.integers(1, 6))
    if dyadic:
        # power-of-two voxel counts with samples exactly on voxel edges: res = L / 2^k exactly only for cubic cell
        N = 64
        k = np.array(rng.integers(0, N, size=(T, A, 3)))
        k[rng.random(size=k.shape) < 0.4] //= 8
        k[rng.random(size=k.shape) < 0.2] *= 1
        res_milli = None
    else:
        # odd numerators over 2N: never on a voxel edge j/n unless n divides ... checked below
        N = 2 * 64
        k = 2 * np.array(rng.integers(0, 64, size=(T, A, 3))) + 1
    for _ in range(200):
        if dyadic:
            n = int(rng.choice([2, 4, 8, 16]))
            res = lens[0] / n                      # exact for the cubic family (10/2^k is not exact!) -> use cell length 8
            res_milli = None
        res = float(rng.uniform(0.35, 0.9 * min(lens)))
        ratios = [L / res for L in lens]
        if all(abs(r - round(r)) > 0.02 for r in ratios):
            dims = [int(L // res) for L in lens]
            # no sample may sit on a voxel edge unless that edge is a dyadic float both ways
            ok = True
            for c in range(3):
                n = dims[c]
                for kk in np.unique(k[:, :, c]):
                    if (int(kk) * n) % N == 0 and kk != 0 and (n & (n - 1)) != 0:
                        ok = False
            if ok:
                break
    raw = k / N + rng.integers(-1, 2, size=k.shape)
    scenario = str(rng.choice(['plain', 'plain', 'asked-before', 'earlier-answer-edited', 'extended-in-between']))
    if scenario == 'extended-in-between' and T >= 2:
        # the volume of the first frames is asked for, the trajectory is extended in place, the volume is asked for again
        cut = int(rng.integers(1, T))
        traj = Trajectory(species=[Species('Li')] * A, coords=raw[:cut], lattice=Lattice(M), time_step=1e-15)
        traj.to_volume(resolution=res)
        traj.extend(Trajectory(species=[Species('Li')] * A, coords=raw[cut:], lattice=Lattice(M), time_step=1e-15))
    else:
        traj = Trajectory(species=[Species('Li')] * A, coords=raw, lattice=Lattice(M), time_step=1e-15)
    gen.perturb(traj, rng)
    if scenario == 'asked-before':
        traj.to_volume(resolution=res)
    if scenario == 'earlier-answer-edited':
        v0 = traj.to_volume(resolution=res)              # what a caller does with ITS volume is its own business
        np.asarray(v0.data)[...] = 0
        del v0
    vol = trajectory_to_volume(traj, resolution=res) if (rng.random() < 0.5 and scenario == 'plain') else traj.to_volume(resolution=res)
    data = np.asarray(vol.data)
    nz = np.argwhere(data > 0)
    unit = 100000
    rec = {'b': b, 'act': 'Volume', 'N': N, 'pos': np.mod(k, N).tolist(), 'L': [L * unit for L in lens], 'res': int(round(res * unit)),
           'dims': [int(x) for x in data.shape], 'cells': [[int(x), int(y), int(z), int(data[x, y, z])] for x, y, z in nz],
           'total': int(data.sum()), 'meta': {'family': fam, 'orientation': orient, 'resolution': res, 'scenario': scenario,
                                              'voxel_size': [float(x) for x in vol.voxel_size]}}
    # voxel_size is L / dims (checked by ResolutionBand through dims); alpha check that the reported size matches
    vs_ok = all(abs(vs * d - L) < 1e-9 * L for vs, d, L in zip(vol.voxel_size, data.shape, lens))
    # the volume lives in the cell of its trajectory
    vs_ok = vs_ok and np.allclose(np.asarray(vol.lattice.matrix, dtype=float), np.asarray(M, dtype=float), rtol=1e-12, atol=1e-12)
    if not vs_ok:
        rec['dims'] = [-1, -1, -1]
    return rec


def volume_record_long(rng, b, axis, length=15000, res=0.19):
    """A very elongated cell (a wire / channel model): more than 2^16 voxels along one axis, a handful along the others; samples in
    every part of the long axis, in particular beyond voxel 65535."""
    from pymatgen.core import Lattice, Species
    from gemdat import Trajectory, trajectory_to_volume
    lens = [2, 3, 2]
    lens[axis] = length
    N = 2 ** 14 if (length / res) * 2 ** 14 < 2 ** 31 - 1 else 2 ** 13          # TLC integers are 32 bit: N x voxels must fit
    T, A = 6, 4
    k = 2 * np.array(rng.integers(0, N // 2, size=(T, A, 3))) + 1
    k[:, 0, axis] = 2 * np.array(rng.integers(int(0.45 * N), N // 2, size=T)) + 1          # the far end of the long axis
    M = np.diag([float(x) for x in lens])
    if rng.random() < 0.5:
        M = M @ gen.random_rotation(rng).T
    traj = Trajectory(species=[Species('Li')] * A, coords=k / N + rng.integers(-1, 2, size=k.shape), lattice=Lattice(M), time_step=1e-15)
    vol = trajectory_to_volume(traj, resolution=res)
    data = np.asarray(vol.data)
    nz = np.argwhere(data > 0)
    unit = 1000
    return {'b': b, 'act': 'Volume', 'N': N, 'pos': np.mod(k, N).tolist(), 'L': [L * unit for L in lens], 'res': int(round(res * unit)),
            'dims': [int(x) for x in data.shape], 'cells': [[int(x), int(y), int(z), int(data[x, y, z])] for x, y, z in nz],
            'total': int(data.sum()), 'meta': {'family': f'elongated axis {axis}', 'resolution': res, 'length': length}}


def roundtrip_record(b, n):
    from pymatgen.core import Lattice
    from gemdat import Volume
    vol = Volume(data=np.zeros((n, 1, 1)), lattice=Lattice.cubic(5.0))
    back = []
    for v in range(n):
        f = vol.voxel_to_frac_coords([v, 0, 0])
        back.append(int(vol.frac_coords_to_voxel(f)[0]))
    return {'b': b, 'act': 'RoundTrip', 'n': n, 'back': back}


def free_energy_record(rng, b):
    from pymatgen.core import Lattice
    from scipy.constants import physical_constants
    from gemdat import Volume
    dims = [int(x) for x in rng.integers(1, 5, size=3)]
    kind = int(rng.integers(0, 5))
    counts = np.zeros(dims, dtype=np.int64)
    nvis = int(rng.integers(1, counts.size + 1))
    idx = rng.choice(counts.size, size=nvis, replace=False)
    if kind == 0:
        vals = rng.integers(1, 50, size=nvis)
    elif kind == 1:
        vals = 2 ** rng.integers(0, 20, size=nvis)
    elif kind == 2:
        vals = rng.integers(1, 3, size=nvis) * 10 ** rng.integers(0, 6, size=nvis)
    elif kind == 3:
        vals = np.ones(nvis, dtype=np.int64)
    else:
        # dynamic range above 1e8: rarely visited voxels next to a basin visited ~1e9 times (p down to ~5e-10)
        vals = rng.integers(1, 4, size=nvis)
        vals[int(rng.integers(0, nvis))] = int(rng.integers(10 ** 9, 2 * 10 ** 9))
    counts.reshape(-1)[idx] = vals
    # any positive temperature (kT below and above 1 eV: 11 604.5 K)
    temp = float(rng.choice([1.0, 300.0, 650.0, 2000.0, 11000.0, 12000.0, 50000.0, 1e6, 0.01]))
    # probabilities do not depend on the overall scale of the density: feed integer counts, the same as floats, or multiplied by
    # an arbitrary positive factor (e.g. a density per cubic Angstrom)
    form = int(rng.integers(0, 4))
    scale = [1.0, 1.0, 1e-3, 7.25][form]
    data_in = counts if form == 0 else counts.astype(float) * scale
    # the same values in another memory layout (Fortran order, a transposed view of a C-ordered array): an array is its values
    layout = str(rng.choice(['C', 'C', 'F', 'view']))
    if layout == 'F':
        data_in = np.asfortranarray(data_in)
    elif layout == 'view':
        data_in = np.ascontiguousarray(data_in.transpose(2, 0, 1)).transpose(1, 2, 0)
    vol = Volume(data=data_in, lattice=Lattice.cubic(6.0))
    F = vol.get_free_energy(temperature=temp)
    mutated = False
    if rng.random() < 0.4:
        # the volume keeps accumulating samples (its data array is changed in place); the next answer must reflect the new data
        vol.probability()
        extra = np.zeros(counts.size, dtype=np.int64)
        extra[rng.choice(counts.size, size=int(rng.integers(1, counts.size + 1)), replace=False)] = rng.integers(1, 40, size=1)
        extra = extra.reshape(counts.shape)
        counts = counts + extra
        vol.data += extra if form == 0 else extra.astype(float) * scale
        F = vol.get_free_energy(temperature=temp)
        mutated = True
    # the two graphs in either order, before or after the energies are read: building a graph is a read-only question
    graphs_first = bool(rng.random() < 0.5)
    low_first = bool(rng.random() < 0.5)

    def build_graphs():
        if low_first:
            g2 = F.free_energy_graph(max_energy_threshold=1e7)
            g1 = F.free_energy_graph()
        else:
            g1 = F.free_energy_graph()
            g2 = F.free_energy_graph(max_energy_threshold=1e7)
        return g1, g2
    if graphs_first:
        g_def, g_1e7 = build_graphs()
    data = np.asarray(F.data, dtype=float)
    kB = physical_constants['Boltzmann constant in eV/K'][0]
    total = int(counts.sum())
    rec_list = []
    for x, y, z in np.argwhere(counts > 0):
        v = total * math.exp(-data[x, y, z] / (kB * temp))
        r = round(v)
        rec_list.append([int(x), int(y), int(z), int(r) if abs(v - r) <= 1e-6 * max(1.0, v) else -999999])
    flat = data.reshape(-1)
    order = {val: i for i, val in enumerate(sorted(set(flat.tolist())))}
    rank = np.vectorize(lambda q: order[q])(data).astype(int)
    if not graphs_first:
        g_def, g_1e7 = build_graphs()
    return {'b': b, 'act': 'FreeEnergy', 'counts': counts.tolist(), 'finite': bool(np.all(np.isfinite(data))),
            'recovered': rec_list, 'rank': rank.tolist(), 'nodesDefault': [list(map(int, n)) for n in g_def.nodes],
            'nodes1e7': [list(map(int, n)) for n in g_1e7.nodes], 'meta': {'T': temp, 'dims': dims, 'kind': kind, 'density_scale': scale, 'integer_input': form == 0, 'data_changed_between_calls': mutated, 'memory_layout': layout}}


METHODS = [('dijkstra', 'sum'), ('bellman-ford', 'sum'), ('simple', 'simple'), ('dijkstra-exp', 'exp'), ('minmax-energy', 'peak')]


def random_grid(rng, maxdims=(4, 3, 5), p_block=None, emax=6):
    dims = [int(rng.integers(1, m + 1)) for m in maxdims]
    if np.prod(dims) < 3:
        dims[2] = 3
    rng.shuffle(dims)
    E = rng.integers(0, emax + 1, size=dims)
    p = float(rng.choice([0.0, 0.15, 0.4])) if p_block is None else p_block
    E[rng.random(size=dims) < p] = BLOCKED
    return E


def to_energy(E, kind):
    data = E.astype(float)
    if kind == 'exp':
        data = 2.0 * data * math.log(2.0)
    data[E == BLOCKED] = BLOCK_ENERGY
    return data


def path_record(rng, b, E, method, kind, diagonal, use_default_graph):
    import networkx as nx
    from pymatgen.core import Lattice
    from gemdat.volume import FreeEnergyVolume
    F = FreeEnergyVolume(data=to_energy(E, kind), lattice=Lattice.cubic(5.0))
    dims = E.shape
    free = np.argwhere(E != BLOCKED)
    if len(free) >= 2 and rng.random() < 0.9:
        i, j = rng.choice(len(free), size=2, replace=False)
        start, stop = free[i], free[j]
    else:
        start = np.array([int(rng.integers(0, d)) for d in dims])
        stop = np.array([int(rng.integers(0, d)) for d in dims])
        if np.array_equal(start, stop):
            return None
    rec = {'b': b, 'act': 'Path', 'E': E.tolist(), 'diagonal': bool(diagonal), 'kind': kind, 'start': [int(x) for x in start],
           'stop': [int(x) for x in stop], 'raised': False, 'sites': [], 'energy': [], 'meta': {'method': method}}
    try:
        if use_default_graph and diagonal:
            p = F.optimal_path(start=tuple(int(x) for x in start), stop=tuple(int(x) for x in stop), method=method)
        else:
            G = F.free_energy_graph(max_energy_threshold=1e7, diagonal=diagonal)
            p = F.optimal_path(G, start=tuple(int(x) for x in start), stop=tuple(int(x) for x in stop), method=method)
    except (nx.NetworkXNoPath, nx.NodeNotFound):
        rec['raised'] = True
        return rec
    if use_default_graph and diagonal and len(p.sites) >= 3 and rng.random() < 0.5:
        # the free-energy volume is edited in place (an interior voxel of the first path is blocked) and asked again
        mid = tuple(int(x) for x in p.sites[len(p.sites) // 2])
        F.data[mid] = BLOCK_ENERGY
        E = E.copy()
        E[mid] = BLOCKED
        rec['E'] = E.tolist()
        rec['meta']['blocked_after_first_query'] = list(mid)
        try:
            p = F.optimal_path(start=tuple(int(x) for x in start), stop=tuple(int(x) for x in stop), method=method)
        except (nx.NetworkXNoPath, nx.NodeNotFound):
            rec['raised'] = True
            return rec
    rec['sites'] = [[int(x) for x in s] for s in p.sites]
    rec['secondary'] = secondary_ok(p)
    en = []
    for val in p.energy:
        if kind == 'exp':
            m = val / (2.0 * math.log(2.0))
            en.append(int(round(m)) if abs(m - round(m)) < 1e-9 else -999999)
        else:
            en.append(int(round(val)) if abs(val - round(val)) < 1e-9 else -999999)
    rec['energy'] = en
    return rec


def secondary_ok(p):
    """The derived read-outs of a Pathway agree with its sites / energies: total_energy = sum of the reported energies,
    start_site / stop_site = first / last site."""
    tot = float(sum(float(v) for v in p.energy))
    return bool(abs(float(p.total_energy) - tot) <= 1e-9 * max(1.0, abs(tot)) and tuple(p.start_site) == tuple(p.sites[0])
                and tuple(p.stop_site) == tuple(p.sites[-1]))


def perc_record(rng, b, E, perc):
    from pymatgen.core import Lattice
    from gemdat.volume import FreeEnergyVolume
    F = FreeEnergyVolume(data=to_energy(E, 'sum'), lattice=Lattice.cubic(5.0))
    free = np.argwhere(E != BLOCKED)
    if len(free) == 0:
        return None
    npk = int(rng.integers(1, min(4, len(free)) + 1))
    peaks = free[rng.choice(len(free), size=npk, replace=False)]
    p = F.optimal_percolating_path(peaks=np.array(peaks), percolate=perc)
    pv = [1 if c in perc else 0 for c in 'xyz']
    rec = {'b': b, 'act': 'Percolate', 'E': E.tolist(), 'perc': pv, 'peaks': [[int(x) for x in q] for q in peaks], 'none': p is None,
           'sites': [], 'energy': [], 'wrapped': [], 'fracInCell': True, 'meta': {'percolate': perc}}
    if p is not None:
        rec['sites'] = [[int(x) for x in s] for s in p.sites]
        rec['secondary'] = secondary_ok(p)
        rec['energy'] = [int(round(v)) if abs(v - round(v)) < 1e-9 else -999999 for v in p.energy]
        rec['wrapped'] = [[int(x) for x in s] for s in p.wrapped_sites()]
        fs = np.asarray(p.frac_sites())
        exp_fs = (np.array(rec['wrapped']) + 0.5) / np.array(E.shape)
        rec['fracInCell'] = bool(np.all((fs >= 0) & (fs < 1)) and np.allclose(fs, exp_fs, atol=1e-12))
    return rec


def channel_grid(rng):
    """A grid with a percolating channel, walls, and an isolated pocket (a peak from which no percolating path exists).
    Returns (E, peaks ordered pocket first, then percolating peaks of different cost, cheapest last or in the middle, perc)."""
    axis = int(rng.integers(0, 3))               # percolation axis
    L = int(rng.integers(3, 6))
    dims = [1, 1, 1]
    dims[axis] = L
    other = (axis + 1) % 3
    dims[other] = 4                              # rows: 0 channel, 1 wall, 2 pocket row, 3 wall
    E = np.full(dims, BLOCKED)
    def idx(i, row):
        v = [0, 0, 0]
        v[axis] = i
        v[other] = row
        return tuple(v)
    chan = rng.integers(0, 6, size=L)
    for i in range(L):
        E[idx(i, 0)] = chan[i]
    pocket_i = int(rng.integers(0, L))
    E[idx(pocket_i, 2)] = int(rng.integers(0, 3))
    if L >= 5 and rng.random() < 0.5:            # a second, two-voxel pocket
        E[idx((pocket_i + 2) % L, 2)] = 1
    peaks = [list(idx(pocket_i, 2))]
    order = list(rng.permutation(L))[:min(3, L)]
    peaks += [list(idx(int(i), 0)) for i in order]
    if rng.random() < 0.5:
        peaks = peaks[1:2] + peaks[:1] + peaks[2:]        # pocket second
    return E, peaks, 'xyz'[axis]


def near_tie_grid(rng):
    """Two disjoint percolating channels whose best paths cost almost the same (relative difference about 1e-6, absolute 1..3 on
    energies of about 1e5): channel A is straight (5 sites), channel B is cheaper by that little and winds (7 sites).  'Cheapest over
    all supplied peaks' is an exact comparison of costs, not a comparison up to a tolerance or a preference for short paths."""
    axis = int(rng.integers(0, 3))
    other = (axis + 1 + int(rng.integers(0, 2))) % 3
    L = 4
    dims = [1, 1, 1]
    dims[axis], dims[other] = L, 7               # rows: 0 channel A, 1 wall, 2..5 channel B, 6 wall
    E = np.full(dims, BLOCKED)

    def idx(i, row):
        v = [0, 0, 0]
        v[axis], v[other] = i, row
        return tuple(v)
    lo, hi = 100000, 200000
    track = [(0, 2), (1, 3), (1, 4), (2, 5), (3, 4), (3, 3)]
    for (i, row) in track:
        E[idx(i, row)] = int(rng.integers(lo, hi))
    for (i, row) in [(1, 2), (1, 5), (3, 2), (3, 5)]:
        E[idx(i, row)] = 600000
    sum_b = sum(int(E[idx(i, row)]) for (i, row) in track) + int(E[idx(0, 2)])
    delta = int(rng.integers(1, 4))
    target = sum_b + delta                        # node sum of the straight path from (0, row 0): 2 a0 + a1 + a2 + a3
    a = [int(x) for x in rng.integers(lo, hi, size=3)]
    if (target - sum(a)) % 2:
        a[0] += 1
    a0 = (target - sum(a)) // 2
    for i, val in enumerate([a0] + a):
        E[idx(i, 0)] = val
    peaks = [list(idx(0, 0)), list(idx(0, 2))]
    if rng.random() < 0.5:
        peaks.reverse()
    return E, peaks, 'xyz'[axis]


def perc_record_fixed(b, E, peaks, perc):
    from pymatgen.core import Lattice
    from gemdat.volume import FreeEnergyVolume
    F = FreeEnergyVolume(data=to_energy(E, 'sum'), lattice=Lattice.cubic(5.0))
    p = F.optimal_percolating_path(peaks=np.array(peaks), percolate=perc)
    pv = [1 if c in perc else 0 for c in 'xyz']
    rec = {'b': b, 'act': 'Percolate', 'E': E.tolist(), 'perc': pv, 'peaks': [[int(x) for x in q] for q in peaks], 'none': p is None,
           'sites': [], 'energy': [], 'wrapped': [], 'fracInCell': True, 'meta': {'percolate': perc, 'kind': 'channel+pocket'}}
    if p is not None:
        rec['sites'] = [[int(x) for x in s] for s in p.sites]
        rec['secondary'] = secondary_ok(p)
        rec['energy'] = [int(round(v)) if abs(v - round(v)) < 1e-9 else -999999 for v in p.energy]
        rec['wrapped'] = [[int(x) for x in s] for s in p.wrapped_sites()]
        fs = np.asarray(p.frac_sites())
        exp_fs = (np.array(rec['wrapped']) + 0.5) / np.array(E.shape)
        rec['fracInCell'] = bool(np.all((fs >= 0) & (fs < 1)) and np.allclose(fs, exp_fs, atol=1e-12))
    return rec


def npaths_record(rng, b, E, diagonal, quick_second=False, ends=None):
    import networkx as nx
    from fractions import Fraction
    from pymatgen.core import Lattice
    from gemdat.volume import FreeEnergyVolume
    F = FreeEnergyVolume(data=to_energy(E, 'sum'), lattice=Lattice.cubic(5.0))
    free = np.argwhere(E != BLOCKED)
    if len(free) < 2:
        return None
    i, j = rng.choice(len(free), size=2, replace=False)
    start, stop = free[i], free[j]
    if ends is not None:
        start, stop = np.array(ends[0]), np.array(ends[1])
    n = int(rng.integers(1, 5))
    fr = [Fraction(3, 20), Fraction(1, 4), Fraction(1, 2), Fraction(0, 1)][int(rng.integers(0, 4))]
    method = str(rng.choice(['dijkstra', 'bellman-ford', 'simple', 'default']))
    if quick_second:
        # two paths, any difference accepted: the enumeration stops at the first path that differs from the optimal one, so larger
        # grids (where the path with the fewest steps is not the cheapest one) are affordable
        n, fr = 2, Fraction(0, 1)
        method = ['simple', 'dijkstra', 'simple', 'bellman-ford'][b % 4]
    rec = {'b': b, 'act': 'NPaths', 'E': E.tolist(), 'diagonal': bool(diagonal), 'start': [int(x) for x in start], 'stop': [int(x) for x in stop],
           'n': n, 'num': fr.numerator, 'den': fr.denominator, 'raised': False, 'paths': [], 'kind0': 'simple' if method == 'simple' else 'sum',
           'meta': {'n_paths': n, 'min_diff': float(fr), 'method': method}}
    G = F.free_energy_graph(max_energy_threshold=1e7, diagonal=diagonal)
    kw = {} if method == 'default' else {'method': method}
    try:
        paths = F.optimal_n_paths(G, start=tuple(int(x) for x in start), stop=tuple(int(x) for x in stop), n_paths=n, min_diff=float(fr), **kw)
    except (nx.NetworkXNoPath, nx.NodeNotFound):
        rec['raised'] = True
        return rec
    rec['paths'] = [[[int(x) for x in sx] for sx in p.sites] for p in paths]
    return rec
