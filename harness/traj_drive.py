"""Random public-API call sequences on gemdat.Trajectory, recorded for TraceTraj.tla (C15 C01 C13 C06 C19)."""
from __future__ import annotations

import numpy as np

from . import gen

OFFGRID = -999999
SP_NAMES = ['Li', 'Na', 'O', 'S', 'Si', 'N']          # species code = index; S/Si and N/Na contain each other
BASE = 16                                   # raw inputs live on the /16 grid
LC = 12                                     # lcm(1..4): drift means over <= 4 reference atoms stay on the grid
N = BASE * LC                               # 192


def grid(x, n=N, tol=1e-6):
    """alpha: float array -> integers in units 1/n (OFFGRID where the residual is too large)."""
    v = np.asarray(x, dtype=float) * n
    r = np.rint(v)
    bad = ~(np.abs(v - r) <= tol * np.maximum(1.0, np.abs(v)))
    out = r.astype(np.int64)
    out[bad] = OFFGRID
    return out


_META_CODES = {}
_LAT_CODES = {}


def lat_code(t):
    """The cell of a trajectory as one integer (constant cell: the 3 x 3 matrix to nine decimals)."""
    m = np.asarray(t.lattice, dtype=float)
    key = (bool(t.constant_lattice), m.shape, tuple(np.round(m.ravel(), 9).tolist()))
    return _LAT_CODES.setdefault(key, len(_LAT_CODES))



def meta_code(md):
    """The metadata of a trajectory as one integer: the temperature when that is all there is (what the constructors of this driver
    pass), otherwise a code of the whole dict -- so that an added, removed or changed entry is a change of the object."""
    if not isinstance(md, dict):
        return -1
    if set(md) == {'temperature'}:
        try:
            return int(md['temperature'])
        except (TypeError, ValueError):
            pass
    key = repr(sorted((str(k), repr(v)) for k, v in md.items()))
    return 1000000 + _META_CODES.setdefault(key, len(_META_CODES))


def project(t):
    """Abstract projection of a live object from public attributes only (no method call, no mutation)."""
    coords = np.array(t.coords, dtype=float)
    if t.coords_are_displacement:
        pos = np.asarray(t.base_positions, dtype=float)[None] + np.cumsum(coords, axis=0)
    else:
        pos = coords
    k = grid(pos)
    ok = k != OFFGRID
    k = np.where(ok, np.mod(k, N), OFFGRID)
    sp = [SP_NAMES.index(s.symbol) for s in t.species]
    return {'pos': k.tolist(), 'sp': sp, 'dt': (int(round(t.time_step * 1e15)) if isinstance(t.time_step, (int, float)) else -1), 'meta': meta_code(t.metadata), 'lat': lat_code(t),
            'dead': False}


class Recorder:
    def __init__(self, b, G, rng, family, orientation):
        from pymatgen.core import Lattice
        self.b = b
        self.G = G
        self.rng = rng
        self.lattice = Lattice(gen.lattice_matrix(G, orientation, rng))
        self.objs = []
        self.recs = []
        self.meta = {'family': family, 'orientation': orientation}
        self.driftref = {}        # object index -> tuple(ref) it was corrected with (None = raw)
        self.small = {}           # object index -> all steps known to be below a quarter cell

    def log(self, act, **kw):
        d = {'b': self.b, 'act': act, 'N': N, 'G': self.G}
        d.update(kw)
        d['objs'] = [project(o) for o in self.objs]
        self.recs.append(d)

    # ---- constructors
    def raw_coords(self, T, A, max_step, closed=False):
        """Raw coordinates on the /16 grid (as multiples of LC on the /N grid), shifted by whole lattice vectors.
        closed: every atom retraces its path, ending exactly where it started (there-and-back motion: no NET displacement)."""
        rng = self.rng
        k = np.zeros((T, A, 3), dtype=np.int64)
        k[0] = rng.integers(0, BASE, size=(A, 3))
        for t in range(1, T):
            k[t] = k[t - 1] + rng.integers(-max_step, max_step + 1, size=(A, 3))
        if closed:
            for t in range(T // 2 + 1, T):
                k[t] = k[T - 1 - t]
        k = np.mod(k, BASE) + BASE * rng.integers(-2, 3, size=(T, A, 3))
        return k * LC

    def construct(self, T, A, max_step=3, species=None, like=None, closed=False):
        from pymatgen.core import Element, Species
        from gemdat import Trajectory
        rng = self.rng
        c = self.raw_coords(T, A, max_step, closed)
        sp = species or [int(x) for x in rng.choice([0, 1, 2, 3, 4, 5] if rng.random() < 0.5 else [3, 4, 5, 1], size=A)]
        mk = Species if rng.random() < 0.5 else Element
        dt, temp = int(rng.integers(1, 4)), int(rng.integers(100, 900))
        objs = [mk(SP_NAMES[s]) for s in sp]
        if rng.random() < 0.3:
            # decorated species (oxidation states): str(Species('Li', 1)) is 'Li+', its element symbol is still 'Li' -- species are named
            # by their element symbol
            OX = {'Li': 1, 'Na': 1, 'O': -2, 'S': -2, 'Si': 4, 'N': -3}
            objs = [Species(SP_NAMES[s], OX[SP_NAMES[s]]) for s in sp]
        if like is not None:                      # same species objects and time step: can be appended to `like`
            objs = list(like.species)
            dt = int(round(like.time_step / 1e-15))
        t = Trajectory(species=objs, coords=c / N, lattice=self.lattice,
                       time_step=dt * 1e-15, metadata={'temperature': temp})
        self.objs.append(t)
        self.driftref[len(self.objs) - 1] = None
        self.small[len(self.objs) - 1] = True
        self.log('Construct', c=c.tolist(), sp=sp, dt=dt, meta=temp, lat=lat_code(t))
        return len(self.objs) - 1

    def construct_faces(self, T, A):
        """Coordinates on or within rounding distance of a cell face: k/16 + e, k near multiples of 16."""
        from pymatgen.core import Species
        from gemdat import Trajectory
        rng = self.rng
        eps = [0.0, 1e-17, -1e-17, 1e-16, -1e-16, 2.0 ** -53, -2.0 ** -53, 2.0 ** -52, -2.0 ** -52, 1e-15, -1e-15]
        faces = [0, 0, BASE, -BASE, 2 * BASE, 1, -1, BASE - 1, BASE + 1]
        k = np.array([[[faces[int(rng.integers(0, len(faces)))] for _ in range(3)] for _ in range(A)] for _ in range(T)])
        e = np.array([[[eps[int(rng.integers(0, len(eps)))] for _ in range(3)] for _ in range(A)] for _ in range(T)])
        c = k / BASE + e
        sp = [int(x) for x in rng.integers(0, 3, size=A)]
        t = Trajectory(species=[Species(SP_NAMES[s]) for s in sp], coords=c, lattice=self.lattice, time_step=1e-15,
                       metadata={'temperature': 300})
        self.objs.append(t)
        self.driftref[len(self.objs) - 1] = None
        self.small[len(self.objs) - 1] = True
        self.log('Construct', c=(k * LC).tolist(), sp=sp, dt=1, meta=300, faces=True, lat=lat_code(t))
        return len(self.objs) - 1

    def construct_disp(self, T, A, max_step=3):
        from pymatgen.core import Species
        from gemdat import Trajectory
        rng = self.rng
        base = rng.integers(-BASE, 2 * BASE, size=(A, 3)) * LC
        d = rng.integers(-max_step, max_step + 1, size=(T, A, 3)) * LC
        d[0] = 0
        sp = [int(x) for x in rng.integers(0, 3, size=A)]
        dt, temp = int(rng.integers(1, 4)), int(rng.integers(100, 900))
        t = Trajectory(species=[Species(SP_NAMES[s]) for s in sp], coords=d / N, lattice=self.lattice,
                       time_step=dt * 1e-15, metadata={'temperature': temp}, coords_are_displacement=True,
                       base_positions=base / N)
        self.objs.append(t)
        self.driftref[len(self.objs) - 1] = None
        self.small[len(self.objs) - 1] = True
        self.log('ConstructDisp', base=base.tolist(), d=d.tolist(), sp=sp, dt=dt, meta=temp, lat=lat_code(t))
        return len(self.objs) - 1

    # ---- queries with checked return values
    def get_pos(self, i):
        p = self.objs[i].positions
        incell = bool(np.all((p >= 0) & (p < 1)))
        k = grid(p)
        self.log('GetPos', i=i + 1, ret=np.where(k == OFFGRID, OFFGRID, np.mod(k, N)).tolist(), incell=incell)

    def frame(self, i, how):
        """One frame as a pymatgen Structure: traj[t] (also negative t), get_structure(t), or iteration."""
        t = self.objs[i]
        n = len(t)
        idx = int(self.rng.integers(0, n))
        if how == 'index':
            s = t[idx - n] if self.rng.random() < 0.3 else t[idx]
        elif how == 'get_structure':
            s = t.get_structure(idx)
        else:
            for q, s in enumerate(t):
                if q == idx:
                    break
        k = grid(np.asarray(s.frac_coords, dtype=float))
        self.log('Frame', i=i + 1, t=idx, how=how, ret=np.where(k == OFFGRID, OFFGRID, np.mod(k, N)).tolist(),
                 sp=[SP_NAMES.index(x.symbol) for x in s.species])

    def get_disp(self, i):
        self.log('GetDisp', i=i + 1, ret=grid(self.objs[i].displacements).tolist())

    def cum_disp(self, i):
        self.log('CumDisp', i=i + 1, ret=grid(self.objs[i].cumulative_displacements).tolist())

    def dist(self, i):
        d = self.objs[i].distances_from_base_position()
        self.log('Dist', i=i + 1, ret=grid(d ** 2, N * N, tol=1e-6).tolist())

    # ---- derivations
    def slice(self, i, start, stop, step):
        t = self.objs[i]
        n = len(t)
        idx = list(range(*slice(start, stop, step).indices(n)))
        if not idx:
            return False
        new = t[start:stop:step]
        self.objs.append(new)
        self.driftref[len(self.objs) - 1] = self.driftref[i]
        self.small[len(self.objs) - 1] = self.small.get(i, False) and (step in (None, 1))
        self.log('Slice', i=i + 1, idx=idx, sl=str([start, stop, step]))
        return True

    def index_list(self, i, idx):
        new = self.objs[i][list(idx)]
        self.objs.append(new)
        self.driftref[len(self.objs) - 1] = self.driftref[i]
        self.log('IndexList', i=i + 1, idx=[int(x) for x in idx])

    def filter(self, i, names):
        t = self.objs[i]
        keep = [k for k, s in enumerate(t.species) if s.symbol in names]
        if not keep:
            return False
        arg = names[0] if len(names) == 1 and self.rng.random() < 0.5 else list(names)
        new = t.filter(arg)
        self.objs.append(new)
        self.driftref[len(self.objs) - 1] = None if self.driftref[i] is None else 'sub'
        self.small[len(self.objs) - 1] = self.small.get(i, False)
        self.log('Filter', i=i + 1, keep=keep)
        return True

    def split(self, i, k, equal):
        t = self.objs[i]
        if k > len(t) - 1:
            return False
        src = np.array(project(t)['pos'])
        parts = t.split(k, equal_parts=equal)
        ranges = []
        for p in parts:
            pp = np.array(project(p)['pos'])
            n = len(pp)
            prev_stop = ranges[-1][1] if ranges and ranges[-1][1] >= 0 else 0
            found = None
            # frames may repeat (objects extended with copies of themselves): take the first match at or after the previous part
            for s in list(range(prev_stop, len(src) - n + 1)) + list(range(0, prev_stop)):
                if 0 <= s <= len(src) - n and np.array_equal(src[s:s + n], pp):
                    found = s
                    break
            ranges.append([found, found + n] if found is not None else [-1, -1])
        for p in parts:
            self.objs.append(p)
            self.driftref[len(self.objs) - 1] = self.driftref[i]
            self.small[len(self.objs) - 1] = self.small.get(i, False)
        self.log('Split', i=i + 1, k=k, equal=bool(equal), ranges=ranges)
        return True

    def extend(self, i, j):
        a, b = self.objs[i], self.objs[j]
        if i == j or a.species != b.species or a.time_step != b.time_step or len(a) + len(b) > 24:
            return False
        a.extend(b)
        self.driftref[i] = 'ext'
        self.small[i] = False
        self.log('Extend', i=i + 1, j=j + 1)
        return True

    def read_only(self, i, what):
        t = self.objs[i]
        try:
            if what == 'msd':
                t.mean_squared_displacement()
            elif what == 'volume':
                t.to_volume(resolution=1.0)
            elif what == 'metrics':
                m = t.metrics()
                m.tracer_diffusivity(dimensions=3), m.particle_density(), m.speed()
            elif what == 'len':
                len(t), t.total_time, t.get_lattice()
            elif what == 'structure':
                t.get_structure(0)
            elif what == 'com':
                t.center_of_mass()
            elif what == 'repr':
                repr(t)
            elif what == 'transitions':
                from pymatgen.core import Structure
                syms = sorted({s.symbol for s in t.species})
                st = Structure(lattice=t.get_lattice(), species=[syms[0]] * 2, coords=[[0.1, 0.1, 0.1], [0.6, 0.6, 0.6]], labels=['A', 'B'])
                tr = t.transitions_between_sites(st, syms[0], site_radius=1.5)
                tr.states, tr.events, tr.occupancy()
            elif what == 'rdf':
                from gemdat.rdf import radial_distribution_between_species
                syms = sorted({s.symbol for s in t.species})
                radial_distribution_between_species(trajectory=t, specie_1=syms[0], specie_2=syms[-1], max_dist=3.0, resolution=0.5)
            elif what == 'metrics2':
                m = t.metrics()
                m.vibration_amplitude(), m.attempt_frequency(), m.tracer_diffusivity_center_of_mass(dimensions=2), m.amplitudes()
        except Exception as e:           # an exception from a read-only query is not C15's business
            what = what + ':' + type(e).__name__
        self.log('ReadOnly', i=i + 1, what=what)

    # ---- drift (C13)
    def ref_atoms(self, i, mode):
        """Choose a reference selection; returns (kwargs, ref atom indices) or None."""
        t = self.objs[i]
        syms = [s.symbol for s in t.species]
        present = sorted(set(syms))
        rng = self.rng
        if mode == 'none':
            return {}, list(range(len(syms)))
        pick = [present[int(rng.integers(0, len(present)))]]
        if len(present) > 2 and rng.random() < 0.4:
            pick = list(rng.choice(present, size=2, replace=False))
        form = int(rng.integers(0, 3))
        names = list(pick)
        if form > 0 or len(pick) > 1:
            # legal noise in a collection: a species that is not in the trajectory, a repeated name
            r2 = rng.random()
            absent = [x for x in ('Al', 'Cl', 'K') if x not in present]
            if r2 < 0.3:
                names = names + [absent[int(rng.integers(0, len(absent)))]]
            elif r2 < 0.5:
                names = names + [names[0]]
            elif r2 < 0.65:
                names = [absent[0]] + names + [absent[1]]
        arg = pick[0] if (len(pick) == 1 and form == 0) else (list(names) if form < 2 else set(names))
        if mode == 'fixed':
            ref = [k for k, s in enumerate(syms) if s in pick]
            return {'fixed_species': arg}, ref
        ref = [k for k, s in enumerate(syms) if s not in pick]
        return {'floating_species': arg}, ref

    def drift_ok(self, i, ref):
        """Domain of C13: steps below a quarter cell; means must stay on the grid."""
        if not ref or LC % len(ref) != 0 or not self.small.get(i, False):
            return False
        prev = self.driftref[i]
        return prev is None or prev == tuple(ref)

    def gauge_pair(self, i, mode):
        """Copy of object i with a rigid time-dependent translation; correct both with the same reference; compare."""
        from gemdat import Trajectory
        t = self.objs[i]
        if not self.small.get(i, False) or self.driftref.get(i) is not None:
            return False
        r = self.ref_atoms(i, mode)
        kw, ref = r
        if not self.drift_ok(i, ref):
            return False
        T = len(t)
        # rigid drift signal on the /16 grid, one grid unit per frame at most (total step stays below a quarter cell)
        inc = self.rng.integers(-1, 2, size=(T, 3))
        if self.rng.random() < 0.4:                              # a shake that returns: no net translation over the run
            for q in range(T // 2 + 1, T):
                inc[q] = -inc[T - q]
            if T % 2 == 0:
                inc[T // 2] = 0
        inc[0] = self.rng.integers(-BASE, BASE, size=3)          # arbitrary constant offset, then at most one grid unit per frame
        g = np.cumsum(inc, axis=0) * LC
        pos = np.array(project(t)['pos'])
        new = Trajectory(species=t.species, coords=(pos + g[:, None, :]) / N, lattice=self.lattice, time_step=t.time_step,
                         metadata=dict(t.metadata))
        self.objs.append(new)
        j = len(self.objs) - 1
        self.driftref[j] = None
        self.small[j] = True
        self.log('ConstructShifted', i=i + 1, g=g.tolist())
        ci = None
        for src in (i, j):
            c = self.objs[src].apply_drift_correction(**kw)
            self.objs.append(c)
            k = len(self.objs) - 1
            self.driftref[k] = tuple(ref)
            self.small[k] = True
            self.log('ApplyDrift', i=src + 1, ref=ref, kw=str(kw))
            if ci is None:
                ci = k
        self.log('Gauge', ci=ci + 1, cj=k + 1)
        return True

    def drift(self, i, mode):
        r = self.ref_atoms(i, mode)
        if r is None:
            return False
        kw, ref = r
        if not self.drift_ok(i, ref):
            return False
        d = self.objs[i].drift(**kw)
        self.log('Drift', i=i + 1, ref=ref, ret=grid(np.asarray(d)[:, 0, :] * len(ref)).tolist(), kw=str(kw))
        return True

    def apply_drift(self, i, mode):
        r = self.ref_atoms(i, mode)
        if r is None:
            return False
        kw, ref = r
        if not self.drift_ok(i, ref):
            return False
        new = self.objs[i].apply_drift_correction(**kw)
        self.objs.append(new)
        self.driftref[len(self.objs) - 1] = tuple(ref)
        self.small[len(self.objs) - 1] = True
        self.log('ApplyDrift', i=i + 1, ref=ref, kw=str(kw))
        return True


def random_behaviour(b, rng, family, orientation, n_steps, acts, max_objs=6, Tmax=10, Amax=4, max_step=3):
    """One recorded behaviour. acts: weights dict over action names."""
    rec = Recorder(b, gen.FAMILIES[family], rng, family, orientation)
    T, A = int(rng.integers(3, Tmax + 1)), int(rng.integers(1, Amax + 1))
    rec.construct(T, A, max_step)
    names = list(acts)
    w = np.array([acts[n] for n in names], dtype=float)
    w /= w.sum()
    steps = 0
    guard = 0
    while steps < n_steps and guard < 10 * n_steps:
        guard += 1
        act = names[int(rng.choice(len(names), p=w))]
        i = int(rng.integers(0, len(rec.objs)))
        t = rec.objs[i]
        full = len(rec.objs) >= max_objs
        ok = True
        if act == 'Construct':
            ok = not full and (rec.construct(int(rng.integers(2, Tmax + 1)), len(t.species), max_step,
                                             species=[SP_NAMES.index(s.symbol) for s in t.species]) is not None)
        elif act == 'ConstructLoop':
            ok = not full and (rec.construct(int(rng.integers(3, Tmax + 1)), int(rng.integers(1, Amax + 1)), max_step, closed=True) is not None)
        elif act == 'ConstructFaces':
            ok = not full and (rec.construct_faces(int(rng.integers(2, 6)), int(rng.integers(1, 4))) is not None)
        elif act == 'FaceProbe':
            # a face-adjacent object taken through every representation switch: positions and displacements alternately,
            # then the queries that switch modes internally
            ok = not full
            if ok:
                j = rec.construct_faces(int(rng.integers(2, 6)), int(rng.integers(1, 4)))
                for q in ('GetPos', 'GetDisp', 'GetPos', 'Dist', 'GetPos', 'CumDisp', 'GetPos'):
                    getattr(rec, {'GetPos': 'get_pos', 'GetDisp': 'get_disp', 'Dist': 'dist', 'CumDisp': 'cum_disp'}[q])(j)
                rec.read_only(j, 'msd')
                rec.get_pos(j)
                rec.read_only(j, 'volume')
                rec.get_pos(j)
        elif act == 'ConstructDisp':
            ok = not full and (rec.construct_disp(int(rng.integers(2, Tmax + 1)), int(rng.integers(1, Amax + 1)), max_step) is not None)
        elif act == 'GetPos':
            rec.get_pos(i)
        elif act == 'GetDisp':
            rec.get_disp(i)
        elif act == 'Frame':
            rec.frame(i, str(rng.choice(['index', 'get_structure', 'iterate'])))
        elif act == 'CumDisp':
            rec.cum_disp(i)
        elif act == 'Dist':
            rec.dist(i)
        elif act == 'Slice':
            n = len(t)
            start = int(rng.integers(-n - 1, n + 1)) if rng.random() < 0.7 else None
            stop = int(rng.integers(-n - 1, n + 2)) if rng.random() < 0.7 else None
            step = int(rng.integers(1, 4)) if rng.random() < 0.6 else None
            ok = not full and rec.slice(i, start, stop, step)
        elif act == 'IndexList':
            n = len(t)
            idx = rng.integers(0, n, size=int(rng.integers(1, min(n, 5) + 1)))
            ok = not full
            if ok:
                rec.index_list(i, idx)
        elif act == 'Filter':
            syms = sorted({s.symbol for s in t.species})
            pick = list(rng.choice(syms, size=int(rng.integers(1, len(syms) + 1)), replace=False))
            ok = not full and rec.filter(i, pick)
        elif act == 'Split':
            k = int(rng.integers(1, 4))
            ok = len(rec.objs) + k <= max_objs + 2 and rec.split(i, k, bool(rng.random() < 0.5))
        elif act == 'Extend':
            j = int(rng.integers(0, len(rec.objs)))
            ok = rec.extend(i, j)
        elif act == 'ExtendProbe':
            # every derived quantity asked, the object extended in place, every derived quantity asked again: whatever a query
            # kept from before the extension must not be served afterwards
            ok = not full
            if ok:
                j = rec.construct(int(rng.integers(2, 6)), len(t.species), max_step, species=[SP_NAMES.index(s.symbol) for s in t.species], like=t)
                ok = j is not None and len(t) + len(rec.objs[j]) <= 24
            if ok:
                qs = ['cum_disp', 'dist', 'get_disp', 'get_pos']
                for what in ('msd', 'com', 'metrics'):
                    rec.read_only(i, what)
                # the last query decides which internal representation each of the two objects is in when they are joined:
                # all four combinations occur
                combo = int(rng.integers(0, 4))
                order = [q for q in rng.permutation(qs) if q != ('get_pos' if combo & 1 else 'get_disp')] + ['get_pos' if combo & 1 else 'get_disp']
                for q in order:
                    getattr(rec, str(q))(i)
                getattr(rec, 'get_pos' if combo & 2 else str(rng.choice(['get_disp', 'cum_disp', 'dist'])))(j)
                ok = rec.extend(i, j)
                for q in rng.permutation(qs):
                    getattr(rec, str(q))(i)
                for what in ('msd', 'com', 'metrics'):
                    rec.read_only(i, what)
        elif act == 'ReadOnly':
            rec.read_only(i, str(rng.choice(['msd', 'volume', 'metrics', 'len', 'structure', 'com', 'repr', 'transitions', 'rdf', 'metrics2'])))
        elif act == 'GaugePair':
            ok = len(rec.objs) + 3 <= max_objs + 3 and rec.gauge_pair(i, str(rng.choice(['fixed', 'floating', 'none'])))
        elif act == 'Drift':
            ok = rec.drift(i, str(rng.choice(['fixed', 'floating', 'none'])))
        elif act == 'ApplyDrift':
            ok = not full and rec.apply_drift(i, str(rng.choice(['fixed', 'floating', 'none'])))
        if ok:
            steps += 1
    return rec
