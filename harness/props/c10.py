"""C10 -- optimal and percolating paths are valid, correctly reported and cost-minimal."""
import numpy as np

from .. import core, grid_drive
from .c08 import judge, walker_cfg


def run(rep):
    quick = rep.tier == 'quick'
    core.gemdat_src_first()
    rep.rule = ('Leg M: on every periodic grid of the bound with energies {0,1,2,blocked}, a walker state machine never reaches a voxel cheaper than '
                'the Bellman-Ford operator MinCost, and MinCost / MinPeak are attained by an exhaustive search over simple walks. '
                'Leg B: random integer free-energy grids up to 4x3x5 (unequal axes, 0-40 % blocked) through FreeEnergyVolume.optimal_path '
                '(5 methods, diagonal on/off, default and explicit graphs) and optimal_percolating_path (7 direction sets, 1-4 peaks); TraceGrid '
                'checks endpoints, every step a move of the periodic grid between admissible voxels, reported energies, and cost = MinCost under '
                'the method\'s criterion (edge sums, hops, sum of 2^(m_u+m_v) for dijkstra-exp, bottleneck for minmax-energy); percolation: stop = '
                'start + dims along requested axes on the tiled torus, cheapest over peaks, wrapped and fractional sites inside the grid. '
                'Non-trivial = path with >= 3 sites or a correctly refused request.')
    rep.assumptions = ['integer energies (exact sums); blocked = 3e7 > the 1e7 threshold; NetworkXNoPath / NodeNotFound are the API contract for unreachable requests',
                       'only costs are compared, never node sequences (ties are broken arbitrarily)',
                       'method minmax-energy returning the dijkstra path where the bottleneck could be lower is known finding D7']
    inst = [(1, 2, 3, False, 'sum'), (1, 2, 3, True, 'sum')] if quick else [(2, 2, 2, False, 'sum'), (1, 2, 3, True, 'sum'), (1, 2, 3, True, 'simple'), (1, 2, 4, False, 'sum')]
    for (dx, dy, dz, diag, kind) in inst:
        r = core.model_check('MC_Walker', walker_cfg(dx, dy, dz, diag, kind, ['NeverCheaper', 'Attained', 'PeakAttained']), workers=16, timeout=3000)
        rep.add_model(f'MC_Walker {dx}x{dy}x{dz} diagonal={diag} kind={kind}', r)
    rng = np.random.default_rng(rep.seed + 10)
    recs = []
    n = 150 if quick else 2000
    b = 0
    # pinned input of known finding D7 first (deterministic KNOWN-FINDING line)
    ring = np.full((6, 1, 1), 0)
    ring[:, 0, 0] = [0, 3, 0, 2, 2, 2]
    import networkx as nx   # noqa
    rec = grid_drive.path_record(np.random.default_rng(0), b, ring, 'minmax-energy', 'peak', False, False)
    if rec is not None:
        rec['start'], rec['stop'] = [0, 0, 0], [2, 0, 0]
        from pymatgen.core import Lattice
        from gemdat.volume import FreeEnergyVolume
        F = FreeEnergyVolume(data=grid_drive.to_energy(ring, 'sum'), lattice=Lattice.cubic(5.0))
        p = F.optimal_path(F.free_energy_graph(max_energy_threshold=1e7, diagonal=False), start=(0, 0, 0), stop=(2, 0, 0), method='minmax-energy')
        rec['sites'] = [[int(x) for x in s] for s in p.sites]
        rec['energy'] = [int(round(v)) for v in p.energy]
        rec['raised'] = False
        rec['meta'] = {'method': 'minmax-energy', 'pinned': 'D7'}
        recs.append(rec)
    while len(recs) < n:
        b += 1
        E = grid_drive.random_grid(rng)
        method, kind = grid_drive.METHODS[b % 5]
        if kind == 'exp':
            E = np.where(E == grid_drive.BLOCKED, E, np.minimum(E, 4))
        diagonal = bool(b % 2)
        r_ = grid_drive.path_record(rng, b, E, method, kind, diagonal, use_default_graph=bool(b % 3 == 0))
        if r_ is not None:
            recs.append(r_)
    percs = ['x', 'y', 'z', 'xy', 'xz', 'yz', 'xyz']
    for k in range(50 if quick else 700):
        b += 1
        E = grid_drive.random_grid(rng, maxdims=(3, 3, 4))
        r_ = grid_drive.perc_record(rng, b, E, percs[k % 7])
        if r_ is not None:
            recs.append(r_)
    for k in range(20 if quick else 300):
        b += 1
        E, peaks, perc = grid_drive.channel_grid(rng)
        recs.append(grid_drive.perc_record_fixed(b, E, peaks, perc))
    for k in range(8 if quick else 100):
        b += 1
        E, peaks, perc = grid_drive.near_tie_grid(rng)
        r_ = grid_drive.perc_record_fixed(b, E, peaks, perc)
        r_['meta']['kind'] = 'two channels, near tie'
        recs.append(r_)
    nt = sum(1 for r_ in recs if len(r_['sites']) >= 3 or r_.get('raised') or r_.get('none'))
    for r_ in recs[1:4] + recs[-2:]:
        r_ = dict(r_)
        rep.sample({k: r_[k] for k in ('act', 'E', 'start', 'stop', 'sites', 'perc', 'peaks', 'meta') if k in r_})
    judge(rep, recs)
    rep.nontrivial += nt
    # optimal_n_paths: every returned path valid and the first one optimal under the selected method are C10 clauses (verdicts);
    # how many paths come back, their pairwise difference >= min_diff and their order of cost are beyond the listed property:
    # judged by the same trace spec but INFORMATIONAL (printed as a NOTE, recorded in the evidence).  The leg runs AFTER the
    # property has been decided and under a wall-clock budget per call (optimal_n_paths enumerates simple paths and can take
    # unbounded time on a tree where the graph has more edges than it should): it can never delay or mask the verdict.
    import signal

    class _Budget(Exception):
        pass

    def _alarm(signum, frame):
        raise _Budget()
    extra_recs, skipped = [], {}
    old = signal.signal(signal.SIGALRM, _alarm)
    try:
        for k in range(30 if quick else 400):
            b += 1
            # small grids, faces only: optimal_n_paths enumerates simple paths until enough different ones are found
            big = k % 3 == 2
            if big:
                # a ring (1 x 1 x L or 1 x 2 x L): the way round with the fewest steps and the cheapest way round differ
                dims = [1, int(rng.integers(1, 3)), int(rng.integers(6, 9))]
                rng.shuffle(dims)
                E = rng.integers(0, 7, size=dims)
                ends = None
                if k % 2 == 0:
                    # ... deliberately: the short way round is steep, the long way round is flat
                    dims = [1, 1, int(rng.integers(7, 10))]
                    ax = int(rng.integers(0, 3))
                    dims[ax], dims[2] = dims[2], dims[ax]
                    E = np.zeros(dims, dtype=int)
                    gap = int(rng.integers(2, 4))
                    idx = [0, 0, 0]
                    for q in range(1, gap):
                        idx[ax] = q
                        E[tuple(idx)] = int(rng.integers(4, 7))
                    stop_ = [0, 0, 0]
                    stop_[ax] = gap
                    ends = ([0, 0, 0], stop_)
            else:
                E = grid_drive.random_grid(rng, maxdims=(2, 2, 3), p_block=float(rng.choice([0.0, 0.15])))
            signal.alarm(20)
            try:
                r_ = grid_drive.npaths_record(rng, b, E, bool(big and k % 2), quick_second=big, ends=ends if big else None)
            except _Budget:
                skipped['budget-exceeded'] = skipped.get('budget-exceeded', 0) + 1
                if skipped['budget-exceeded'] >= 3:
                    break
                continue
            except Exception as e:                                  # informational leg: noted, not a verdict on C10
                skipped['raised:' + type(e).__name__] = skipped.get('raised:' + type(e).__name__, 0) + 1
                continue
            finally:
                signal.alarm(0)
            if r_ is not None:
                extra_recs.append(r_)
    finally:
        signal.alarm(0)
        signal.signal(signal.SIGALRM, old)
    for kx, c in skipped.items():
        print(f'NOTE (outside the listed properties): optimal_n_paths {kx} in {c} calls')
    if extra_recs:
        metas = [r_.pop('meta') for r_ in extra_recs]
        verdicts = core.validate_traces('TraceGrid', extra_recs, timeout=2400)
        rep.add_trace_stats()
        notes = {}
        for rec, meta, (v, _) in zip(extra_recs, metas, verdicts):
            rep.evaluations += 1
            if v in ('npaths-none-returned', 'npaths-not-a-valid-path', 'npaths-first-not-optimal', 'no-path-reported-but-one-exists'):
                # what C10 says about every returned path (valid; none cheaper under the selected criterion) holds for the paths of
                # optimal_n_paths too, and its first path is the optimal one: these clauses are verdicts
                rep.violation({'kind': 'leg-B', 'clause': v, 'meta': meta, 'record': {'E': rec['E'], 'start': rec['start'], 'stop': rec['stop'], 'paths': rec['paths'][:3]}})
            elif v != 'ok':
                notes.setdefault(v, {'count': 0, 'example': {'meta': meta, 'start': rec['start'], 'stop': rec['stop'], 'E': rec['E'], 'paths': rec['paths'][:4]}})
                notes[v]['count'] += 1
        rep.extra['beyond_property_optimal_n_paths'] = {'records': len(extra_recs), 'deviations': notes, 'skipped': skipped}
        for v, d in notes.items():
            print(f'NOTE (outside the listed properties): optimal_n_paths {v} in {d["count"]} of {len(extra_recs)} cases')
    rep.exhaustive = True
