"""C06 -- mean squared displacement and tracer diffusivity equal their definitions."""
import numpy as np
from scipy.constants import angstrom

from .. import core, gen
from .. import metrics_drive as md


def mc_cfg(maxlen, invs, K=3):
    return '\n'.join(['SPECIFICATION Spec', f'CONSTANTS MaxLen = {maxlen}', ' MaxSpeed = 2', f' K = {K}'] +
                     [f'INVARIANT {i}' for i in invs] + ['CHECK_DEADLOCK FALSE', ''])


def run(rep):
    quick = rep.tier == 'quick'
    core.gemdat_src_first()
    from gemdat import TrajectoryMetrics
    rep.rule = ('Leg M: MC_Metrics checks lemmas of the exact cores on every step series up to MaxLen (MSD at lag 0 is 0, scaling of the cell by K '
                'scales numerators by K^2). Leg A/B (spec as oracle): the harness generates integer unwrapped walks (|step| <= 7/16 of the cell, biased '
                'so that atoms cross faces many times, T <= 24, <= 4 atoms), realises them as wrapped, lattice-shifted coordinates in 6 cell '
                'families x 3 orientations; TraceMetrics prints MsdNum (sum over time origins of w^T G w), DistSq and TracerNum from the '
                'integer metric tensor; mean_squared_displacement() * N^2 (T - tau), distances_from_base_position()^2 * N^2 and '
                'tracer_diffusivity(d) * 2 d T dt / A^2 * N^2 * n_atoms must equal them (relative 1e-9 of the row scale; FFT round-off). '
                'Non-trivial = walk with at least one face crossing.')
    rep.assumptions = ['per-step displacement < half a cell in every coordinate', 'FFT-based MSD compared to relative 1e-8 of the largest row entry',
                       'scipy.constants.angstrom used by alpha; total_time = n_frames * time_step as in the property']
    r = core.model_check('MC_Metrics', mc_cfg(5 if quick else 7, ['MsdLagZero', 'ScaleLaw', 'LinearMsd', 'MsdPerAtom']), workers=8, timeout=2400)
    rep.add_model('MC_Metrics (MsdLagZero, ScaleLaw, LinearMsd, MsdPerAtom)', r)
    rng = np.random.default_rng(rep.seed + 6)
    fams = list(gen.FAMILIES)
    n = 60 if quick else 1200
    recs, trajs = [], []
    for b in range(n):
        T, A = int(rng.integers(2, 25)), int(rng.integers(1, 5))
        w = md.make_walk(rng, T, A)
        traj, G = md.build(rng, fams[b % len(fams)], ['chol', 'pmg', 'rot'][b % 3], w, ['Li'] * A, dt_fs=int(rng.integers(1, 4)),
                           as_displacements=(b % 5 == 4))
        recs.append({'b': b, 'G': G, 'w': w.tolist(), 'm': [1] * A, 'speeds': [], 'parts': [], 'want': {'msd': True}})
        trajs.append((traj, w))
    # every third case: the trajectory is given to the code in two pieces; the first piece is analysed (and judged), then
    # extended in place with the second piece, and the whole is analysed again -- analysis results must not be stale
    pieces = {}
    for b in range(0, n, 3):
        traj, w = trajs[b]
        T = w.shape[0]
        if T < 4:
            continue
        cut = int(rng.integers(2, T - 1))
        first, second = traj[:cut], traj[cut:]
        pieces[b] = (first, second)
        recs.append({'b': n + b, 'G': recs[b]['G'], 'w': w[:cut].tolist(), 'm': [1] * w.shape[1], 'speeds': [], 'parts': [], 'want': {'msd': True}})
        trajs.append((first, w[:cut]))
    exp = core.run_oracle('TraceMetrics', recs, timeout=2400)
    rep.add_trace_stats()
    # after the first pieces have been judged below (in order), extend them and judge the extended object against the full walk
    order = list(range(n, len(trajs))) + list(range(n))
    extended = False
    for b in order:
        if b < n and not extended:
            for b0, (first, second) in pieces.items():
                first.extend(second)
                trajs[b0] = (first, trajs[b0][1])         # the extended object now stands for the whole walk
            extended = True
        (traj, w), e = trajs[b], exp[b]
        T, A, _ = w.shape
        rep.evaluations += 1
        if np.abs(w).max() >= md.N:
            rep.nontrivial += 1
        if b < n:
            gen.perturb(traj, rng)
        msd = np.asarray(traj.mean_squared_displacement())
        bad = None
        dist = np.asarray(traj.distances_from_base_position())
        if msd.shape != (A, T) or dist.shape != (A, T):
            rep.violation({'kind': 'oracle', 'clause': 'result-shape' + ('' if b >= n or b not in pieces else '-after-extend'),
                           'detail': [list(msd.shape), list(dist.shape), [A, T]], 'family': fams[b % len(fams)]})
            continue
        for a in range(A):
            scale = max(1.0, float(max(e['msd'][a])) * T)
            for tau in range(T):
                if not md.close(msd[a, tau] * md.N ** 2 * (T - tau), e['msd'][a][tau], rel=1e-8, scale=scale):
                    bad = ('msd', a, tau, float(msd[a, tau]), e['msd'][a][tau] / (md.N ** 2 * (T - tau)))
        for a in range(A):
            for t in range(T):
                if not md.close(dist[a, t] ** 2 * md.N ** 2, e['dist'][a][t]):
                    bad = bad or ('distance-from-base', a, t, float(dist[a, t] ** 2), e['dist'][a][t] / md.N ** 2)
        for d in (1, 2, 3):
            D = float(TrajectoryMetrics(traj).tracer_diffusivity(dimensions=d))
            num = D * 2 * d * (T * traj.time_step) / angstrom ** 2 * md.N ** 2 * A
            if not md.close(num, e['tracer']):
                bad = bad or ('tracer-diffusivity', d, D, e['tracer'])
        if bad:
            rep.violation({'kind': 'oracle', 'clause': bad[0] + ('' if b >= n or b not in pieces else '-after-extend'), 'detail': bad[1:], 'family': fams[b % len(fams)], 'walk': w.tolist(), 'G': recs[b]['G']})
        elif b % 25 == 0:
            rep.sample({'family': fams[b % len(fams)], 'T': T, 'A': A, 'after_extend': b in pieces, 'walk_last': w[-1].tolist(), 'expected_tracer_num': e['tracer'],
                        'expected_msd_num_atom0': e['msd'][0][:6]})
    rep.traces += len(trajs)
    rep.extra['analysed_again_after_extend'] = len(pieces)
    scale_cases(rep, rng, exp, recs, trajs, 3_200_000 if quick else 9_000_000)


def scale_cases(rep, rng, exp, recs, trajs, size):
    """C06 at a scale no enumeration reaches (atoms x frames beyond `size`), two ways, both resting on lemmas TLC checks on the
    small model: (a) MsdPerAtom -- a TLC-judged small walk repeated over very many atoms must give the judged rows for every copy;
    (b) LinearMsd -- atoms in uniform motion over very many frames must give tau^2 |v|^2 (tolerance 1e-10 sum_t |r(t)|^2 / (T - tau):
    thirty times the measured double-precision round-off of the FFT algorithm, six hundred times below single precision)."""
    from .. import metrics_drive as md
    N = md.N
    # (a) many atoms
    b = next(i for i, (t, w) in enumerate(trajs) if w.shape[0] >= 16 and i < len(exp))
    w, e = trajs[b][1], exp[b]
    T, A, _ = w.shape
    K = -(-size // (T * A))
    big, G = md.build(rng, 'tric', 'rot', np.tile(w, (1, K, 1)), ['Li'] * (A * K))
    ebig = core.run_oracle('TraceMetrics', [{'b': 0, 'G': G, 'w': w.tolist(), 'm': [1] * A, 'speeds': [], 'parts': [], 'want': {'msd': True}}], timeout=600)[0]
    msd = np.asarray(big.mean_squared_displacement())
    rep.evaluations += 1
    rep.nontrivial += 1
    if msd.shape != (A * K, T):
        rep.violation({'kind': 'scale', 'clause': 'result-shape-many-atoms', 'detail': [list(msd.shape), [A * K, T]]})
    else:
        expm = np.array([[ebig['msd'][a][tau] / (N ** 2 * (T - tau)) for tau in range(T)] for a in range(A)])
        scale = np.maximum(1.0, expm.max(axis=1, keepdims=True))
        dev = np.abs(msd.reshape(K, A, T) - expm[None]) / scale[None]
        if not np.isfinite(dev).all() or dev.max() > 1e-9:
            k, a, tau = np.unravel_index(np.nanargmax(dev), dev.shape)
            rep.violation({'kind': 'scale', 'clause': 'msd-many-atoms', 'atoms': A * K, 'frames': T, 'atom': int(k * A + a), 'lag': int(tau),
                           'observed': float(msd[k * A + a, tau]), 'expected': float(expm[a, tau])})
    del big, msd
    # (b) many frames, uniform motion
    A2 = 64
    T2 = -(-size // A2)
    v = rng.integers(-7, 8, size=(A2, 3))
    v[np.all(v == 0, axis=1)] = [1, -2, 3]
    wl = np.arange(T2)[:, None, None] * v[None]
    lin, G = md.build(rng, 'hex', 'pmg', wl, ['Li'] * A2)
    Gm = np.array(G, dtype=float)
    q = np.einsum('ai,ij,aj->a', v, Gm, v) / N ** 2                 # |v|^2 in Angstrom^2
    msd = np.asarray(lin.mean_squared_displacement())
    rep.evaluations += 1
    rep.nontrivial += 1
    if msd.shape != (A2, T2):
        rep.violation({'kind': 'scale', 'clause': 'result-shape-many-frames', 'detail': [list(msd.shape), [A2, T2]]})
    else:
        tau = np.arange(T2, dtype=float)
        expm = q[:, None] * tau[None] ** 2
        # round-off of the FFT / running-sum algorithm is proportional to sum_t |r(t)|^2 and is divided by the number of time origins
        # T - tau: measured 3e-12 of that in double precision at 50 000 frames, at least 6e-8 in single precision
        sum_r2 = q * ((T2 - 1) * T2 * (2 * T2 - 1) / 6.0)
        tol = 1e-10 * sum_r2[:, None] / (T2 - tau[None]) + 1e-9
        dev = np.abs(msd - expm) / tol
        rep.extra['scale_many_frames_worst_deviation_over_tolerance'] = float(np.nanmax(dev))
        if not np.isfinite(dev).all() or dev.max() > 1:
            a, t_ = np.unravel_index(np.nanargmax(dev), dev.shape)
            rep.violation({'kind': 'scale', 'clause': 'msd-many-frames-uniform-motion', 'atoms': A2, 'frames': T2, 'atom': int(a), 'lag': int(t_),
                           'observed': float(msd[a, t_]), 'expected': float(expm[a, t_]), 'tolerance': float(tol[a, 0])})
    rep.extra['scale'] = {'many_atoms': [A * K, T], 'many_frames': [A2, T2]}
