"""C06 -- mean squared displacement and tracer diffusivity equal their definitions."""
import numpy as np
from scipy.constants import angstrom

from .. import core, gen
from .. import metrics_drive as md


def mc_cfg(maxlen, invs, K=3):
    return '\n'.join(['SPECIFICATION Spec', f'CONSTANTS MaxLen = {maxlen}', ' MaxSpeed = 2', f' K = {K}'] +
                     [f'INVARIANT {i}' for i in invs] + ['CHECK_DEADLOCK FALSE', ''])


def run(rep):
    quick = rep.tier == 'quick'
    core.gemdat_src_first()
    from gemdat import TrajectoryMetrics
    rep.rule = ('Leg M: MC_Metrics checks lemmas of the exact cores on every step series up to MaxLen (MSD at lag 0 is 0, scaling of the cell by K '
                'scales numerators by K^2). Leg A/B (spec as oracle): the harness generates integer unwrapped walks (|step| <= 7/16 of the cell, biased '
                'so that atoms cross faces many times, T <= 24, <= 4 atoms), realises them as wrapped, lattice-shifted coordinates in 6 cell '
                'families x 3 orientations; TraceMetrics prints MsdNum (sum over time origins of w^T G w), DistSq and TracerNum from the '
                'integer metric tensor; mean_squared_displacement() * N^2 (T - tau), distances_from_base_position()^2 * N^2 and '
                'tracer_diffusivity(d) * 2 d T dt / A^2 * N^2 * n_atoms must equal them (relative 1e-9 of the row scale; FFT round-off). '
                'Non-trivial = walk with at least one face crossing.')
    rep.assumptions = ['per-step displacement < half a cell in every coordinate', 'FFT-based MSD compared to relative 1e-8 of the largest row entry',
                       'scipy.constants.angstrom used by alpha; total_time = n_frames * time_step as in the property']
    r = core.model_check('MC_Metrics', mc_cfg(5 if quick else 7, ['MsdLagZero', 'ScaleLaw']), workers=8, timeout=2400)
    rep.add_model('MC_Metrics (MsdLagZero, ScaleLaw)', r)
    rng = np.random.default_rng(rep.seed + 6)
    fams = list(gen.FAMILIES)
    n = 60 if quick else 1200
    recs, trajs = [], []
    for b in range(n):
        T, A = int(rng.integers(2, 25)), int(rng.integers(1, 5))
        w = md.make_walk(rng, T, A)
        traj, G = md.build(rng, fams[b % len(fams)], ['chol', 'pmg', 'rot'][b % 3], w, ['Li'] * A, dt_fs=int(rng.integers(1, 4)))
        recs.append({'b': b, 'G': G, 'w': w.tolist(), 'm': [1] * A, 'speeds': [], 'parts': [], 'want': {'msd': True}})
        trajs.append((traj, w))
    # every third case: the trajectory is given to the code in two pieces; the first piece is analysed (and judged), then
    # extended in place with the second piece, and the whole is analysed again -- analysis results must not be stale
    pieces = {}
    for b in range(0, n, 3):
        traj, w = trajs[b]
        T = w.shape[0]
        if T < 4:
            continue
        cut = int(rng.integers(2, T - 1))
        first, second = traj[:cut], traj[cut:]
        pieces[b] = (first, second)
        recs.append({'b': n + b, 'G': recs[b]['G'], 'w': w[:cut].tolist(), 'm': [1] * w.shape[1], 'speeds': [], 'parts': [], 'want': {'msd': True}})
        trajs.append((first, w[:cut]))
    exp = core.run_oracle('TraceMetrics', recs, timeout=2400)
    rep.add_trace_stats()
    # after the first pieces have been judged below (in order), extend them and judge the extended object against the full walk
    order = list(range(n, len(trajs))) + list(range(n))
    extended = False
    for b in order:
        if b < n and not extended:
            for b0, (first, second) in pieces.items():
                first.extend(second)
                trajs[b0] = (first, trajs[b0][1])         # the extended object now stands for the whole walk
            extended = True
        (traj, w), e = trajs[b], exp[b]
        T, A, _ = w.shape
        rep.evaluations += 1
        if np.abs(w).max() >= md.N:
            rep.nontrivial += 1
        if b < n:
            gen.perturb(traj, rng)
        msd = np.asarray(traj.mean_squared_displacement())
        bad = None
        dist = np.asarray(traj.distances_from_base_position())
        if msd.shape != (A, T) or dist.shape != (A, T):
            rep.violation({'kind': 'oracle', 'clause': 'result-shape' + ('' if b >= n or b not in pieces else '-after-extend'),
                           'detail': [list(msd.shape), list(dist.shape), [A, T]], 'family': fams[b % len(fams)]})
            continue
        for a in range(A):
            scale = max(1.0, float(max(e['msd'][a])) * T)
            for tau in range(T):
                if not md.close(msd[a, tau] * md.N ** 2 * (T - tau), e['msd'][a][tau], rel=1e-8, scale=scale):
                    bad = ('msd', a, tau, float(msd[a, tau]), e['msd'][a][tau] / (md.N ** 2 * (T - tau)))
        for a in range(A):
            for t in range(T):
                if not md.close(dist[a, t] ** 2 * md.N ** 2, e['dist'][a][t]):
                    bad = bad or ('distance-from-base', a, t, float(dist[a, t] ** 2), e['dist'][a][t] / md.N ** 2)
        for d in (1, 2, 3):
            D = float(TrajectoryMetrics(traj).tracer_diffusivity(dimensions=d))
            num = D * 2 * d * (T * traj.time_step) / angstrom ** 2 * md.N ** 2 * A
            if not md.close(num, e['tracer']):
                bad = bad or ('tracer-diffusivity', d, D, e['tracer'])
        if bad:
            rep.violation({'kind': 'oracle', 'clause': bad[0] + ('' if b >= n or b not in pieces else '-after-extend'), 'detail': bad[1:], 'family': fams[b % len(fams)], 'walk': w.tolist(), 'G': recs[b]['G']})
        elif b % 25 == 0:
            rep.sample({'family': fams[b % len(fams)], 'T': T, 'A': A, 'after_extend': b in pieces, 'walk_last': w[-1].tolist(), 'expected_tracer_num': e['tracer'],
                        'expected_msd_num_atom0': e['msd'][0][:6]})
    rep.traces += len(trajs)
    rep.extra['analysed_again_after_extend'] = len(pieces)
