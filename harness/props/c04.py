"""C04 -- jumps are exactly the changes of visited site; stricter settings only remove."""
from .. import gen
from .. import sites_checks as sc


def run(rep):
    quick = rep.tier == 'quick'
    rep.rule = ('Leg M: the jump classifier of jumps.py transcribed branch by branch (fromevent / candidate_jump) is run by TLC on '
                'every history up to length T for minimal_residence 0..MaxRes and compared with the declarative definition '
                '(consecutive pairs of distinct visited sites): equality for inner=outer and residence 0, key-subset + consistency '
                'with the states otherwise, monotone in the residence. Leg A: every exported history realised as coordinates, '
                'Jumps(minimal_residence=m).data for every m compared with the spec table. Leg B: random long multi-atom '
                'histories, m in {0,1,2,5,20}, inner fraction in {1, 0.75, 0.5}, judged by TraceSites (named clauses). '
                'Non-trivial = record with at least one jump row.')
    rep.assumptions = ['ValueError("No jumps found") is the API contract for an empty jump table and is mapped to the empty table',
                       'jump rows compared as sets plus row count (row order is not part of the property)']
    sc.leg_m(rep, 'C04', [(5, 2, 1, 3), (5, 2, 1, 3, 'mixed')] if quick else [(7, 2, 1, 3), (5, 3, 1, 3), (4, 2, 2, 2), (6, 2, 1, 3, 'mixed'), (4, 3, 1, 2, 'mixed')])
    sc.leg_a(rep, 'C04', 5 if quick else 7, 2, 3)
    if not quick:
        sc.leg_a(rep, 'C04', 5, 3, 3)
    sc.leg_b(rep, 'C04', 30 if quick else 400, 40 if quick else 60, 3 if quick else 4, 4 if quick else 5,
             list(gen.FAMILIES), ms=(0, 1, 2, 5, 20), ks=())
    sc.overlap_cases(rep, 'C04', 12 if quick else 150, ms=(0, 1, 3))
    sc.scale_by_tiling(rep, 33200 if quick else 70000, ms=(0, 4))
    sc.many_sites(rep, 11 if quick else 13, ms=(0, 3), want=('Hist', 'Events', 'Jumps'))
    rep.exhaustive = True
