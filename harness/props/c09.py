"""C09 -- free energy is -kT ln(probability) and stays finite."""
import numpy as np

from .. import core, grid_drive
from .c08 import judge, walker_cfg


def run(rep):
    quick = rep.tier == 'quick'
    core.gemdat_src_first()
    rep.rule = ('Integer density grids (1..4 voxels per axis; uniform, small counts, powers of two, large dynamic range 1..2e6, single voxel) '
                'at T in {1, 300, 650, 2000} K through Volume.get_free_energy and free_energy_graph (default and 1e7 thresholds). TraceGrid '
                'checks: every value finite; graph nodes = exactly the visited voxels; total x exp(-F/kT) (alpha, k_B from scipy) recovers the '
                'integer count of every visited voxel (so probabilities sum to one); a denser voxel never ranks higher in free energy; every '
                'unvisited voxel ranks above every visited one. Non-trivial = grid with at least one unvisited and two distinct visited counts.')
    rep.assumptions = ['ln itself is not specified: only its inverse image on integer counts is checked (relative 1e-6)']
    r = core.model_check('MC_Walker', walker_cfg(1, 1, 2, False, 'sum', ['NeverCheaper']), workers=2, timeout=600)
    rep.add_model('MC_Walker 1x1x2 (node-set semantics: blocked voxels are never entered)', r)
    rng = np.random.default_rng(rep.seed + 9)
    n = 120 if quick else 2000
    recs = [grid_drive.free_energy_record(rng, b) for b in range(n)]
    for r_ in recs:
        c = np.array(r_['counts'])
        if (c == 0).any() and len(set(c[c > 0].tolist())) >= 2:
            rep.nontrivial += 1
    for r_ in recs[:3]:
        rep.sample({'counts': r_['counts'], 'recovered': r_['recovered'][:5], 'meta': r_['meta']})
    judge(rep, recs)
