"""C15 -- select/slice/split/extend and read-only queries never alter the data."""
import numpy as np

from .. import core, gen, traj_drive

ACTS = {'Construct': 1, 'ConstructDisp': 1, 'FaceProbe': 0.3, 'ExtendProbe': 0.5, 'GetPos': 3, 'GetDisp': 3, 'Frame': 2, 'CumDisp': 1, 'Dist': 1, 'Slice': 3, 'IndexList': 1,
        'Filter': 2, 'Split': 1, 'Extend': 1, 'ReadOnly': 2, 'Drift': 1, 'ApplyDrift': 1}


def mc_cfg(depth, max_objs, invs, export=False, variant='code'):
    return '\n'.join(['SPECIFICATION Spec', 'CONSTANTS N = 8', f' MaxObjs = {max_objs}', f' MaxDepth = {depth}',
                      f' DoExport = {"TRUE" if export else "FALSE"}', f' Variant = "{variant}"'] +
                     [f'INVARIANT {i}' for i in invs] + ['CHECK_DEADLOCK FALSE', ''])


MC_INVS = ['AbsStable', 'ReturnsOk', 'DriftZero', 'DriftKeepsFirstFrame']


def leg_m(rep, depth, max_objs=3):
    r = core.model_check('MC_Trajectory', mc_cfg(depth, max_objs, MC_INVS), workers=8, timeout=2400)
    rep.add_model(f'MC_Trajectory N=8 MaxObjs={max_objs} MaxDepth={depth}', r)
    r = core.model_check('MC_Trajectory', mc_cfg(4, 3, ['AbsStable'], variant='filter-coords'), workers=4,
                         expect_violation='AbsStable')
    rep.add_model('MC_Trajectory Variant=filter-coords (negative control: filter reads coords instead of positions)', r,
                  negative_control=True)


def leg_a(rep, depth):
    """Replay every behaviour of the model (all call sequences up to `depth`) on the real class."""
    core.gemdat_src_first()
    from pymatgen.core import Lattice, Species
    from gemdat import Trajectory
    r = core.run_tlc('MC_Trajectory', mc_cfg(depth, 3, ['Export'], export=True), workers=1, timeout=2400)
    if not r.completed:
        raise core.Machinery('MC_Trajectory export failed\n' + r.out[-2000:])
    cases = r.json_prints()
    if len(cases) != r.distinct - 1:
        raise core.Machinery(f'exported {len(cases)} behaviours but TLC found {r.distinct} states')
    rep.states += r.distinct
    rep.transitions += r.generated
    N = 8
    lat = Lattice(gen.lattice_matrix(gen.FAMILIES['tric'], 'pmg'))
    names = {1: 'Li', 2: 'Na'}

    def pad(c):      # [T][A][1] -> float [T, A, 3]
        a = np.array(c, dtype=float)
        return np.concatenate([a, np.zeros(a.shape[:2] + (2,))], axis=2) / N

    def proj(t):
        coords = np.array(t.coords, dtype=float)
        pos = (np.asarray(t.base_positions, dtype=float)[None] + np.cumsum(coords, axis=0)) if t.coords_are_displacement else coords
        k = np.rint(pos * N)
        if np.abs(pos * N - k).max() > 1e-9:
            return None
        return np.mod(k, N).astype(int)[:, :, :1].tolist(), [s.symbol for s in t.species]

    n_mut = 0
    for ci, c in enumerate(cases):
        objs = []
        ok = True
        for call in c['calls']:
            op = call[0]
            if op in ('Construct', 'ConstructDisp'):
                raw = np.array(call[1])
                if op == 'Construct':
                    objs.append(Trajectory(species=[Species('Li'), Species('Na')], coords=pad(raw), lattice=lat,
                                           time_step=1e-15, metadata={'temperature': 1}))
                else:
                    w = np.mod(raw, N)
                    d = np.zeros_like(w)
                    d[1:] = w[1:] - w[:-1]
                    d = np.where(d > N // 2, d - N, np.where(d < -(N // 2), d + N, d))
                    objs.append(Trajectory(species=[Species('Li'), Species('Na')], coords=pad(d), lattice=lat, time_step=1e-15,
                                           metadata={'temperature': 1}, coords_are_displacement=True,
                                           base_positions=pad(raw[:1])[0]))
            elif op == 'GetPos':
                objs[call[1] - 1].positions
            elif op == 'GetDisp':
                objs[call[1] - 1].displacements
                n_mut += 1
            elif op == 'Slice':
                objs.append(objs[call[1] - 1][call[2]:call[3]:call[4]])
            elif op == 'Filter':
                objs.append(objs[call[1] - 1].filter(names[call[2]]))
            elif op == 'Extend':
                objs[call[1] - 1].extend(objs[call[2] - 1])
            elif op == 'ApplyDrift':
                objs.append(objs[call[1] - 1].apply_drift_correction(fixed_species=names[call[2]]))
            else:
                raise core.Machinery(f'unknown exported call {call}')
        got = [proj(o) for o in objs]
        exp = [(c['ghost'][i], [names[s] for s in c['sp'][i]]) for i in range(len(c['ghost']))]
        if len(got) != len(exp) or any(g is None or g[0] != e[0] or g[1] != e[1] for g, e in zip(got, exp)):
            rep.violation({'kind': 'leg-A', 'clause': 'object-data-changed', 'calls': c['calls'], 'expected_ghost': c['ghost'],
                           'observed': got})
        elif ci % 701 == 5:
            rep.sample({'leg': 'A', 'calls': c['calls'], 'ghost': c['ghost']})
    rep.traces += len(cases)
    rep.evaluations += len(cases)
    rep.nontrivial += sum(1 for c in cases if len(c['calls']) >= 2)
    rep.extra['leg_A'] = {'behaviours_replayed': len(cases), 'depth': depth}


def leg_b(rep, n_beh, n_steps, acts, judged=None, seed_off=15, Tmax=10, max_step=3):
    core.gemdat_src_first()
    rng = np.random.default_rng(rep.seed + seed_off)
    fams = list(gen.FAMILIES)
    recs = []
    metas = {}
    for b in range(n_beh):
        r = traj_drive.random_behaviour(b, rng, fams[b % len(fams)], ['chol', 'pmg', 'rot'][b % 3], n_steps, acts, Tmax=Tmax, max_step=max_step)
        recs += r.recs
        metas[b] = r.meta
    verdicts = core.validate_traces('TraceTraj', recs, timeout=2400)
    rep.add_trace_stats()
    bad_b = set()
    per_act = {}
    for rec, (v, act) in zip(recs, verdicts):
        per_act[act] = per_act.get(act, 0) + 1
        if judged is not None and act not in judged and v not in ('object-data-changed', 'object-species-changed',
                                                                   'object-timestep-or-metadata-changed', 'live-object-count'):
            continue
        rep.evaluations += 1
        if rec['act'] not in ('Construct', 'ConstructDisp', 'ReadOnly') or len(rec['objs']) > 1:
            rep.nontrivial += 1
        if v != 'ok' and rec['b'] not in bad_b:
            bad_b.add(rec['b'])
            small = {k: rec[k] for k in rec if k not in ('objs',)}
            rep.violation({'kind': 'leg-B', 'clause': v, 'event': small, 'meta': metas[rec['b']],
                           'prefix': [{k: q[k] for k in q if k not in ('objs', 'G', 'ret', 'c', 'd', 'base')} for q in recs
                                      if q['b'] == rec['b']][:40]})
    for b in (0, n_beh // 2):
        rep.sample({'leg': 'B', 'meta': metas[b], 'calls': [{k: q[k] for k in q if k not in ('objs', 'G', 'ret', 'c', 'd', 'base', 'N', 'b')}
                                                            for q in recs if q['b'] == b][:12]})
    rep.traces += n_beh
    rep.extra['leg_B'] = {'behaviours': n_beh, 'events': len(recs), 'events_per_action': per_act}


def leg_repo_tests(rep):
    """Leg B on the repository's OWN tests: run them under an external tracer and validate every recorded call with TraceTraj."""
    import json
    import os
    import subprocess
    src = os.environ.get('GEMDAT_SRC', '/repo/src')
    tmp = core.scratch('repotrace-')
    out = tmp / 'trace.ndjson'
    try:
        env = dict(os.environ)
        env.update({'VERIF_TRACE_OUT': str(out), 'PYTHONPATH': f'{core.VERIF}:{src}', 'PYTHONHASHSEED': '0'})
        p = subprocess.run(['/venv/bin/python', '-m', 'pytest', '-q', '-p', 'no:cacheprovider', '-p', 'harness.pytest_tracer',
                            'tests/trajectory_test.py', 'tests/metrics_test.py', 'tests/orientations_test.py'],
                           cwd='/repo', env=env, stdout=subprocess.PIPE, stderr=subprocess.STDOUT, text=True, timeout=900)
        if not out.exists():
            raise core.Machinery('tracer produced no trace\n' + p.stdout[-2000:])
        recs = [json.loads(ln) for ln in open(out)]
        meta = json.load(open(str(out) + '.meta'))
    finally:
        import shutil
        shutil.rmtree(tmp, ignore_errors=True)
    if not recs:
        raise core.Machinery('empty trace from the repository tests')
    verdicts = core.validate_traces('TraceTraj', recs, timeout=1200)
    rep.add_trace_stats()
    bad = set()
    for rec, (v, act) in zip(recs, verdicts):
        rep.evaluations += 1
        rep.nontrivial += 1
        if v != 'ok' and rec['b'] not in bad:
            bad.add(rec['b'])
            rep.violation({'kind': 'leg-B-repo-tests', 'clause': v, 'test': meta['tests'].get(str(rec['b'])),
                           'event': {k: rec[k] for k in rec if k not in ('objs', 'G')}})
    rep.traces += len({r['b'] for r in recs})
    rep.extra['repo_tests_traced'] = {'tests_with_events': len({r['b'] for r in recs}), 'events': len(recs),
                                      'untraceable_tests': len(meta['untraceable'])}
    rep.sample({'leg': 'B-repo-tests', 'test': meta['tests'].get(str(recs[0]['b'])),
                'events': [{k: r[k] for k in r if k not in ('objs', 'G', 'ret', 'c')} for r in recs[:6]]})


def run(rep):
    quick = rep.tier == 'quick'
    rep.rule = ('Leg M: every call sequence up to MaxDepth over <= 3 live objects on the implementation-shaped model (one coords array, '
                'mode flag switched in place by positions/displacements/slice/filter/extend/drift): AbsStable (every object still denotes '
                'its ghost) and return-value clauses; negative control variant must be refuted. Leg A: every model behaviour up to a '
                'smaller depth replayed on the real class, abstract projection of every object compared with the ghost. Leg B: seeded '
                'random call sequences (construct from positions / displacements with lattice shifts, positions, displacements, cumulative, '
                'distances, slices with any start/stop/step incl. negative and None, index lists, filter str/list, split, extend, msd/volume/'
                'metrics/structure/centre-of-mass queries, drift) in 6 cell families x 3 orientations; after every call the projection of '
                'EVERY live object is validated by TraceTraj; the repository\'s own trajectory / metrics / orientation tests are run under an external '
                'tracer (harness/pytest_tracer.py, no source change) and every recorded call is validated the same way. Non-trivial = event on a store with > 1 object or a derivation/query.')
    rep.assumptions = ['constant-cell trajectories; coordinates on a /16 grid (exact in binary floating point), drift means on the /192 grid',
                       'displacement-valued clauses are judged only when no coordinate moves by exactly half a cell (np.around half-to-even is ambiguous there)',
                       'objects are projected from the public attributes coords / coords_are_displacement / base_positions without calling methods']
    leg_m(rep, 5 if quick else 7)
    leg_a(rep, 3 if quick else 4)
    leg_b(rep, 60 if quick else 1000, 25 if quick else 30, ACTS)
    leg_repo_tests(rep)
    from .. import sites_checks as sc
    sc.split_sweep(rep, 130 if quick else 400, 16 if quick else 40)
    rep.exhaustive = True
