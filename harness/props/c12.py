"""C12 -- collective jumps are exactly the close-in-time/space pairs of different atoms."""
import math

import numpy as np

from .. import core, gen, sites_drive


def mc_cfg(MaxT, NAt, MaxJ, Window, UseBreak, NS, AllNear, invs, export=False):
    b = lambda x: 'TRUE' if x else 'FALSE'
    return '\n'.join(['SPECIFICATION Spec', f'CONSTANTS MaxT = {MaxT}', f' NAt = {NAt}', f' MaxJ = {MaxJ}',
                      f' Window = {Window}', f' UseBreak = {b(UseBreak)}', f' NS = {NS}', f' AllNear = {b(AllNear)}',
                      f' DoExport = {b(export)}'] + [f'INVARIANT {i}' for i in invs] + ['CHECK_DEADLOCK FALSE', ''])


def make_jumps(tr, rows):
    """A Jumps object with the given table, through the public conversion_method parameter."""
    import pandas as pd
    from gemdat import Jumps
    df = pd.DataFrame(rows, columns=sites_drive.J_COLS).astype(int)
    return Jumps(tr, conversion_method=lambda t, minimal_residence=0: df.copy())


def aggregations(c, label_seq):
    """site_pair_count_matrix / multiple_collective of a Collective, as small integer tables."""
    codes = {lab: i for i, lab in enumerate(sorted(set(label_seq)))}
    M = c.site_pair_count_matrix()
    types = c.site_pair_count_matrix_labels()
    spm = [[codes[types[i][0]], codes[types[i][1]], codes[types[j][0]], codes[types[j][1]], int(M[i, j])]
           for i in range(len(types)) for j in range(len(types)) if M[i, j]]
    multi = []
    if c.collective:
        jumps, counts = c.multiple_collective()
        for pr, n_ in zip(jumps, counts):
            multi.append([int(pr[0]['start']), int(pr[0]['stop']), int(pr[1]['start']), int(pr[1]['stop']), int(n_)])
    return [codes[x] for x in label_seq], spm, multi


def observe(c):
    pairs = [[[int(ei[k]) for k in sites_drive.J_COLS], [int(ej[k]) for k in sites_drive.J_COLS]] for ei, ej in c.collective]
    # coll_jumps is the (start site, destination site) digest of the same pairs, in the same order
    cj = [[[int(a[0]), int(a[1])], [int(b_[0]), int(b_[1])]] for a, b_ in c.coll_jumps]
    if cj != [[[p[0][1], p[0][2]], [p[1][1], p[1][2]]] for p in pairs]:
        raise CollJumpsMismatch(cj, pairs)
    return pairs, int(c.n_solo_jumps), int(c.n_coll_jumps)


class CollJumpsMismatch(Exception):
    pass


def run(rep):
    try:
        _run(rep)
    except CollJumpsMismatch as e:
        rep.evaluations += 1
        rep.violation({'kind': 'leg-B', 'clause': 'coll_jumps-disagree-with-the-collective-pairs', 'coll_jumps': e.args[0][:6], 'pairs': e.args[1][:6]})


def _run(rep):
    quick = rep.tier == 'quick'
    core.gemdat_src_first()
    from gemdat.collective import Collective
    rep.rule = ('Leg M: every jump table (as a multiset) with <= MaxJ jumps, times <= MaxT, transcription of the sorted scan of '
                'collective.py = declarative pairs; negative control UseBreak (the early exit as originally coded, D9) must be violated. '
                'Leg A: every exported table of MaxJ jumps through Collective(...) via Jumps(conversion_method=...). '
                'Leg B: random tables with long transits (<= 14 jumps, times <= 40, <= 4 atoms, 5 sites, 6 cell families, window 0..6, '
                'cut-off with 1e-5 margin) and Jumps.collective() of realised histories, judged by TraceColl with exact site distances. '
                'Non-trivial = table with at least one collective pair.')
    rep.assumptions = ['no site-pair distance within relative 1e-5 of the cut-off',
                       'pairs compared as unordered pairs of jump rows; report order is not part of the property']
    # ---- Leg M
    invs = ['ScanIsDecl', 'OrderFree']
    inst = [(5, 2, 3, 1, 2, True)] if quick else [(5, 2, 4, 1, 2, True), (6, 2, 3, 2, 2, True), (5, 3, 3, 1, 2, True),
                                                  (4, 2, 3, 0, 3, False), (5, 2, 3, 1, 3, False)]
    for (MaxT, NAt, MaxJ, W, NS, AllNear) in inst:
        r = core.model_check('MC_Coll', mc_cfg(MaxT, NAt, MaxJ, W, False, NS, AllNear, invs), workers=8, timeout=2400)
        rep.add_model(f'MC_Coll MaxT={MaxT} NAt={NAt} MaxJ={MaxJ} Window={W} NS={NS} AllNear={AllNear}', r)
    r = core.model_check('MC_Coll', mc_cfg(5, 2, 3, 1, True, 2, True, invs), workers=4, expect_violation='ScanIsDecl')
    rep.add_model('MC_Coll UseBreak=TRUE (negative control: early exit as originally coded)', r, negative_control=True,
                  note='must violate ScanIsDecl; witness needs MaxT >= Window+4')

    rng = np.random.default_rng(rep.seed + 12)
    # a small real Transitions object to hang tables on
    world = gen.SiteWorld(rng, 'cubic', 'chol', N=32, n_sites=2, radius=1.0, inner_fraction=1.0)
    tr0 = world_tr(world, rng)

    # ---- Leg A: exported tables (all-near geometry: cut-off larger than the cell diagonal)
    MaxT, MaxJ = (4, 2) if quick else (5, 3)
    r = core.run_tlc('MC_Coll', mc_cfg(MaxT, 2, MaxJ, 1, False, 2, True, ['Export'], export=True), workers=1, timeout=2400)
    if not r.completed:
        raise core.Machinery('MC_Coll export failed\n' + r.out[-2000:])
    cases = r.json_prints()
    rep.states += r.distinct
    rep.transitions += r.generated
    if len(cases) == 0:
        raise core.Machinery('no tables exported')
    n_with_pairs = 0
    for ci, c in enumerate(cases):
        tbl = [list(x) for x in c['tbl']]
        order = rng.permutation(len(tbl))
        j = make_jumps(tr0, [tbl[i] for i in order])
        col = Collective(jumps=j, sites=world.structure, lattice=world.lattice, max_steps=int(c['window']), max_dist=1000.0)
        pairs, nsolo, ncoll = observe(col)
        srt = [list(x) for x in c['sorted']]
        exp = {frozenset((tuple(srt[p[0] - 1]), tuple(srt[p[1] - 1]))) for p in c['pairs']}
        got = {frozenset((tuple(p[0]), tuple(p[1]))) for p in pairs}
        involved = set().union(*exp) if exp else set()
        rep.evaluations += 1
        if exp:
            n_with_pairs += 1
        if got != exp or len(pairs) != len(exp) or nsolo != len(tbl) - len(involved):
            rep.violation({'kind': 'leg-A', 'clause': 'collective-pairs', 'table': tbl, 'window': c['window'],
                           'expected': sorted(map(sorted, exp)), 'observed': pairs, 'nsolo': nsolo})
        elif exp and ci % 997 == 0:
            rep.sample({'leg': 'A', 'table': tbl, 'window': c['window'], 'expected_pairs': c['pairs']})
    rep.traces += len(cases)
    rep.nontrivial += n_with_pairs
    rep.extra['leg_A'] = {'tables_exported': len(cases), 'with_pairs': n_with_pairs, 'MaxT': MaxT, 'MaxJ': MaxJ}

    # ---- Leg B: random tables in real geometry
    recs = []
    n_cases = 140 if quick else 1500
    fams = list(gen.FAMILIES)
    for b in range(n_cases):
        fam = fams[b % len(fams)]
        G = gen.FAMILIES[fam]
        N = 32
        R = gen.image_range(G)
        S = 5
        w = gen.SiteWorld(rng, fam, ['chol', 'pmg', 'rot'][b % 3], N=N, n_sites=S, radius=0.5, inner_fraction=1.0)
        # candidate cut-offs away from every site-pair distance
        d2 = sorted({gen.min_image_sq(G, [w.sites_k[a][i] - w.sites_k[c][i] for i in range(3)], N, R) / N**2
                     for a in range(S) for c in range(S)})
        for _ in range(50):
            cut = float(rng.uniform(0.5, 7.0))
            if all(abs(x - cut * cut) > 1e-4 * max(1.0, cut * cut) for x in d2):
                break
        # boundary placement: in skewed cells the image obtained by rounding each fractional component is not always the nearest
        # one; put the cut-off between the true minimum-image distance and that component-wise distance for some site pair
        gaps = []
        for a in range(S):
            for c in range(a):
                k = [w.sites_k[a][i] - w.sites_k[c][i] for i in range(3)]
                cen = [((x % N) - N if 2 * (x % N) > N else (x % N)) for x in k]
                t2, n2 = gen.min_image_sq(G, k, N, R) / N**2, gen.norm_sq(G, cen) / N**2
                if n2 > t2 * 1.02:
                    gaps.append((t2, n2, a, c))
        forced = None
        if gaps and rng.random() < 0.6:
            t2, n2, ga, gc = gaps[int(rng.integers(0, len(gaps)))]
            c2 = (t2 + n2) / 2
            if all(abs(x - c2) > 1e-4 * max(1.0, c2) for x in d2):
                cut = math.sqrt(c2)
                forced = (ga, gc)
        nj = int(rng.integers(2, 15))
        nat = int(rng.integers(2, 5))
        rows = set()
        while len(rows) < nj:
            a = int(rng.integers(0, nat))
            s0 = int(rng.integers(0, 30))
            dur = int(rng.choice([1, 1, 2, 3, 8, 15]))
            ss, ds = (int(x) for x in rng.choice(S, size=2, replace=False))
            rows.add((a, ss, ds, s0, s0 + dur))
        if forced is not None:
            # two simultaneous jumps by different atoms that end on the two sites of the chosen pair
            ga, gc = forced
            t0 = int(rng.integers(0, 30))
            rows.add((0, int((ga + 1 + rng.integers(0, S - 1)) % S) if S > 1 else ga, ga, t0, t0 + 1))
            rows.add((1, int((gc + 1 + rng.integers(0, S - 1)) % S) if S > 1 else gc, gc, t0, t0 + 1))
            rows = {r_ for r_ in rows if r_[1] != r_[2]}
            nat = max(nat, 2)
        rows = [list(x) for x in rows]
        rng.shuffle(rows)
        window = int(rng.integers(0, 7))
        tr = world_tr(w, rng)
        col = Collective(jumps=make_jumps(tr, rows), sites=w.structure, lattice=w.lattice, max_steps=window, max_dist=cut)
        pairs, nsolo, ncoll = observe(col)
        labs, spm, multi = aggregations(col, list(w.structure.labels))
        recs.append({'b': b, 'jumps': rows, 'window': window, 'sites': w.sites_k, 'G': G, 'N': N, 'R': R,
                     'thr': int(math.ceil(cut * cut * N * N)), 'pairs': pairs, 'nsolo': nsolo, 'ncoll': ncoll,
                     'labels': labs, 'spm': spm, 'multi': multi, 'meta': f'{fam} cut={cut:.4f}'})
    # scale: one long-transit jump overlapping n short jumps of other atoms that do not overlap each other (window 0):
    # the long jump has exactly n partners, every short jump exactly one
    for n_part in ([256] if quick else [255, 256, 257, 512]):
        b += 1
        w = gen.SiteWorld(rng, 'cubic', 'chol', N=32, n_sites=3, radius=0.5, inner_fraction=1.0)
        rows = [[0, 0, 1, 0, 10 * n_part + 50]] + [[1 + (k % 3), 1, 2, 10 * k + 5, 10 * k + 6] for k in range(n_part)]
        tr = world_tr(w, rng)
        col = Collective(jumps=make_jumps(tr, rows), sites=w.structure, lattice=w.lattice, max_steps=0, max_dist=1000.0)
        pairs, nsolo, ncoll = observe(col)
        labs, spm, multi = aggregations(col, list(w.structure.labels))
        recs.append({'b': b, 'jumps': rows, 'window': 0, 'sites': w.sites_k, 'G': w.G, 'N': 32, 'R': gen.image_range(w.G),
                     'thr': 2 ** 30, 'pairs': pairs, 'nsolo': nsolo, 'ncoll': ncoll, 'labels': labs, 'spm': spm, 'multi': multi,
                     'meta': f'one jump with {n_part} partners'})
    # cells that are not periodic in every direction (slab / wire models): Collective is handed the Lattice, and "minimum image" means
    # the images of THAT lattice.  The cut-off is put, when possible, between a pair's distance in the partially periodic cell and
    # its (shorter) distance through a non-periodic face, and two simultaneous jumps end on that pair.
    from pymatgen.core import Lattice as _Lattice
    n_pbc = 0
    for k_ in range(24 if quick else 300):
        b += 1
        fam = fams[k_ % len(fams)]
        G, N, S = gen.FAMILIES[fam], 32, 5
        R = gen.image_range(G)
        w = gen.SiteWorld(rng, fam, ['chol', 'pmg', 'rot'][k_ % 3], N=N, n_sites=S, radius=0.5, inner_fraction=1.0)
        pbc = [(True, True, False), (True, False, True), (False, True, True), (True, False, False), (False, False, True), (False, False, False)][k_ % 6]
        dp = {(a, c): gen.min_image_sq_pbc(G, [w.sites_k[a][i] - w.sites_k[c][i] for i in range(3)], N, R, pbc) / N ** 2 for a in range(S) for c in range(a)}
        df = {(a, c): gen.min_image_sq(G, [w.sites_k[a][i] - w.sites_k[c][i] for i in range(3)], N, R) / N ** 2 for a in range(S) for c in range(a)}
        allq = sorted(set(dp.values()) | set(df.values()))
        gaps = [(df[key], dp[key], key) for key in dp if dp[key] > df[key] * 1.02]
        forced = None
        cut = None
        if gaps and rng.random() < 0.7:
            lo_, hi_, key = gaps[int(rng.integers(0, len(gaps)))]
            c2 = (lo_ + hi_) / 2
            if all(abs(x - c2) > 1e-4 * max(1.0, c2) for x in allq):
                cut, forced = math.sqrt(c2), key
        if cut is None:
            for _ in range(50):
                cut = float(rng.uniform(0.5, 7.0))
                if all(abs(x - cut * cut) > 1e-4 * max(1.0, cut * cut) for x in allq):
                    break
        nat = int(rng.integers(2, 5))
        rows = set()
        while len(rows) < int(rng.integers(2, 12)):
            a = int(rng.integers(0, nat))
            s0 = int(rng.integers(0, 30))
            ss, ds = (int(x) for x in rng.choice(S, size=2, replace=False))
            rows.add((a, ss, ds, s0, s0 + int(rng.choice([1, 1, 2, 3, 8]))))
        if forced is not None:
            ga, gc = forced
            others = [x for x in range(S) if x not in (ga, gc)]
            # the partners' other ends are sites far (in the partially periodic cell) from both sites of the chosen pair, when there are any
            t0 = int(rng.integers(0, 30))
            rows.add((0, int(rng.choice(others)), ga, t0, t0 + 1))
            rows.add((1, int(rng.choice(others)), gc, t0, t0 + 1))
        rows = [list(x) for x in rows]
        rng.shuffle(rows)
        window = int(rng.integers(0, 7))
        tr = world_tr(w, rng)
        lat = _Lattice(w.M, pbc=pbc)
        col = Collective(jumps=make_jumps(tr, rows), sites=w.structure, lattice=lat, max_steps=window, max_dist=cut)
        pairs, nsolo, ncoll = observe(col)
        labs, spm, multi = aggregations(col, list(w.structure.labels))
        recs.append({'b': b, 'jumps': rows, 'window': window, 'sites': w.sites_k, 'G': G, 'N': N, 'R': R, 'pbc': [bool(x) for x in pbc],
                     'thr': int(math.ceil(cut * cut * N * N)), 'pairs': pairs, 'nsolo': nsolo, 'ncoll': ncoll,
                     'labels': labs, 'spm': spm, 'multi': multi, 'meta': f'{fam} pbc={pbc} cut={cut:.4f} forced={forced}'})
        n_pbc += 1
    rep.extra['partially_periodic_cells'] = n_pbc
    # scale in the number of jumps (beyond any block size): a small table judged by TraceColl, repeated K times with a time shift longer
    # than its span plus the window, has exactly K times its pairs (no pair across repeats)
    for n_target in ([1100] if quick else [1100, 2300]):
        b += 1
        w = gen.SiteWorld(rng, 'ortho', 'chol', N=32, n_sites=4, radius=0.5, inner_fraction=1.0)
        small_rows = [[0, 0, 1, 0, 2], [1, 1, 2, 1, 3], [2, 2, 3, 2, 3], [0, 1, 0, 6, 7], [1, 2, 1, 7, 9], [2, 3, 0, 11, 12]]
        window, period = 2, 40
        K = -(-n_target // len(small_rows))
        rows = [[r[0], r[1], r[2], r[3] + k * period, r[4] + k * period] for k in range(K) for r in small_rows]
        tr = world_tr(w, rng)
        recs_small = None
        col_s = Collective(jumps=make_jumps(tr, small_rows), sites=w.structure, lattice=w.lattice, max_steps=window, max_dist=1000.0)
        pairs_s, nsolo_s, ncoll_s = observe(col_s)
        recs.append({'b': b, 'jumps': small_rows, 'window': window, 'sites': w.sites_k, 'G': w.G, 'N': 32, 'R': gen.image_range(w.G), 'thr': 2 ** 30,
                     'pairs': pairs_s, 'nsolo': nsolo_s, 'ncoll': ncoll_s, 'meta': 'period of the many-jumps table'})
        col_b = Collective(jumps=make_jumps(tr, rows), sites=w.structure, lattice=w.lattice, max_steps=window, max_dist=1000.0)
        pairs_b, nsolo_b, ncoll_b = observe(col_b)
        exp_pairs = sorted([[[p[0][0], p[0][1], p[0][2], p[0][3] + k * period, p[0][4] + k * period],
                             [p[1][0], p[1][1], p[1][2], p[1][3] + k * period, p[1][4] + k * period]] for k in range(K) for p in pairs_s])
        rep.evaluations += 1
        rep.nontrivial += 1
        got_pairs = sorted(sorted(p) for p in pairs_b)
        if got_pairs != sorted(sorted(p) for p in exp_pairs) or nsolo_b != K * nsolo_s or ncoll_b != K * ncoll_s:
            rep.violation({'kind': 'scale', 'clause': 'pairs-of-a-repeated-table-are-not-the-repeated-pairs', 'jumps': len(rows), 'pairs_reported': len(pairs_b),
                           'pairs_expected': len(exp_pairs), 'nsolo': [nsolo_b, K * nsolo_s]})
        rep.extra['many_jumps'] = len(rows)
    # realised histories through Jumps.collective()
    from pymatgen.core import Structure as _Structure
    for b in range(n_cases, n_cases + (14 if quick else 80)):
        fam = fams[b % len(fams)]
        w = gen.SiteWorld(rng, fam, 'chol' if fam in gen.ORTHO_FAMILIES else 'pmg', N=32, n_sites=4, radius=1.0, inner_fraction=1.0)
        hist = gen.random_history(rng, 40, 3, 4, p_stay=0.6, inner=False)
        # the sites may come with a cell of their own (an ideal-crystal file next to a thermally expanded run): distances are those of
        # the SIMULATION cell
        scale = float(rng.choice([1.0, 1.25, 0.8, 1.06]))
        sites_structure = _Structure(lattice=_Lattice(w.M * scale), species=['Li'] * 4, coords=np.array(w.sites_k) / 32, labels=list(w.structure.labels))
        tr = w.trajectory(hist).transitions_between_sites(sites_structure, 'Li', site_radius=1.0)
        j = sites_drive.jumps_or_none(tr, 0)
        if j is None:
            continue
        R = gen.image_range(w.G)
        d2 = sorted({gen.min_image_sq(w.G, [w.sites_k[a][i] - w.sites_k[c][i] for i in range(3)], 32, R) / 32**2
                     for a in range(4) for c in range(4)})
        # cut-off halfway between two neighbouring site distances (so that a few per cent error in a distance changes the answer)
        mids = [math.sqrt((d2[q] + d2[q + 1]) / 2) for q in range(len(d2) - 1) if d2[q + 1] > d2[q] * 1.0004 and d2[q + 1] > 1.0]
        cut = float(mids[int(rng.integers(0, len(mids)))]) if mids else 3.1
        col = j.collective(max_dist=cut)
        pairs, nsolo, ncoll = observe(col)
        recs.append({'b': b, 'jumps': sites_drive.rows_of(j.data, sites_drive.J_COLS), 'window': int(col.max_steps),
                     'sites': w.sites_k, 'G': w.G, 'N': 32, 'R': R, 'thr': int(math.ceil(cut * cut * 32 * 32)),
                     'pairs': pairs, 'nsolo': nsolo, 'ncoll': ncoll, 'meta': f'{fam} via Jumps.collective cut={cut:.4f} sites-lattice-scale={scale}'})
        # the default call (1 A, automatic window) and the properties of Jumps that are defined through it
        cold = j.collective()
        pairs_d, nsolo_d, ncoll_d = observe(cold)
        recs.append({'b': b + 100000, 'jumps': sites_drive.rows_of(j.data, sites_drive.J_COLS), 'window': int(cold.max_steps),
                     'sites': w.sites_k, 'G': w.G, 'N': 32, 'R': R, 'thr': 32 * 32,
                     'pairs': pairs_d, 'nsolo': nsolo_d, 'ncoll': ncoll_d, 'meta': f'{fam} via Jumps.collective() defaults'})
        rep.evaluations += 1
        if int(j.n_solo_jumps) != nsolo_d or abs(float(j.solo_fraction) - nsolo_d / int(j.n_jumps)) > 1e-12 or int(j.n_jumps) != len(recs[-1]['jumps']):
            rep.violation({'kind': 'leg-B', 'clause': 'Jumps.n_solo_jumps / solo_fraction / n_jumps disagree with Jumps.collective()',
                           'observed': [int(j.n_solo_jumps), float(j.solo_fraction), int(j.n_jumps)], 'collective_default': [nsolo_d, ncoll_d]})
    verdicts = core.validate_traces('TraceColl', recs, timeout=1800)
    rep.add_trace_stats()
    for rec, (v, _) in zip(recs, verdicts):
        rep.evaluations += 1
        if rec['pairs']:
            rep.nontrivial += 1
        if v != 'ok':
            rep.violation({'kind': 'leg-B', 'clause': v, 'record': rec})
        elif rec['pairs'] and rec['b'] % 40 == 0:
            rep.sample({'leg': 'B', 'jumps': rec['jumps'], 'window': rec['window'], 'pairs': rec['pairs'], 'meta': rec['meta']})
    rep.traces += len(recs)
    rep.extra['leg_B'] = {'tables': len(recs)}
    rep.exhaustive = True


_TR_CACHE = {}


def world_tr(w, rng):
    """A real Transitions object in world w (any history; only .sites/.diff_trajectory are used by Collective)."""
    h = [[[0, 0], [-1, -1]], [[-1, -1], [-1, -1]], [[1, 1], [-1, -1]], [[1, 1], [0, 0]]]
    return w.trajectory(h).transitions_between_sites(w.structure, 'Li', site_radius=w.radius)
