"""C05 -- jump/occupancy bookkeeping conserves counts; jump diffusivity matches its formula."""
from .. import gen
from .. import sites_checks as sc


def run(rep):
    quick = rep.tier == 'quick'
    rep.rule = ('Leg M: on every 2-atom history up to length T the count matrix of the classifier\'s jump table sums to the number of '
                'jumps, has an empty diagonal and its support is the edge set. Leg A: exported histories, jump tables per residence. '
                'Leg B: random multi-atom histories in 6 cell families x 3 orientations; Jumps.matrix(), Transitions.matrix(), counter(), '
                'to_graph().edges, occupancy(), atom_locations(), jump_diffusivity(3) (alpha: value / (A^2/(2 d N t)) * N^2 must be the '
                'integer sum of squared minimum-image site distances computed by TLC from the metric tensor), rates(k) (sum and variance '
                'numerator of per-part counts). Non-trivial = record with non-empty table / matrix.')
    rep.assumptions = ['at most one atom per site per frame (pymatgen rejects occupancy > 1)',
                       'every atom jitters by 0.01-0.03 A per frame so the attempt frequency used by to_graph is finite',
                       'Transitions.matrix() equal to FoldedMatrix where that differs from Matrix is known finding D5']
    sc.leg_m(rep, 'C05', [(3, 2, 2, 1)] if quick else [(4, 2, 2, 2), (6, 2, 1, 3)])
    sc.leg_a(rep, 'C05', 4 if quick else 6, 2, 1 if quick else 2)
    sc.leg_b(rep, 'C05', 36 if quick else 400, 40 if quick else 60, 3 if quick else 4, 4 if quick else 5,
             list(gen.FAMILIES), ms=(0, 4), ks=(2, 3))
    rep.exhaustive = True
