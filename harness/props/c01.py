"""C01 -- periodic positions/displacements are exact, wrapped, lattice-shift invariant."""
from .. import core
from . import c15

ACTS = {'Construct': 3, 'ConstructFaces': 1, 'FaceProbe': 2, 'ExtendProbe': 1, 'ConstructDisp': 1, 'GetPos': 4, 'GetDisp': 4, 'Frame': 1, 'CumDisp': 3, 'Dist': 3, 'Slice': 1,
        'Filter': 1, 'ReadOnly': 1, 'ApplyDrift': 1, 'Drift': 1, 'Split': 1, 'Extend': 1}
JUDGED = {'GetPos', 'GetDisp', 'CumDisp', 'Dist'}


def wrap_cfg(N, T):
    return '\n'.join(['SPECIFICATION Spec', f'CONSTANTS N = {N}', f' T = {T}', 'INVARIANT InCell', 'INVARIANT SameModOne',
                      'INVARIANT StepsMinImage', 'INVARIANT Telescoping', 'INVARIANT ShiftInvariant', 'INVARIANT DirectDisp',
                      'CHECK_DEADLOCK FALSE', ''])


def run(rep):
    quick = rep.tier == 'quick'
    rep.rule = ('Leg M: MC_Wrap enumerates every raw one-coordinate trajectory (values -N..2N-1 = every lattice shift in {-1,0,1} of every '
                'grid value) up to T frames through the implementation-shaped mode switches: in-cell, same modulo 1, minimum-image steps, '
                'telescoping, shift invariance; MC_Trajectory checks the same return-value clauses along every call sequence. '
                'Leg B: recorded call sequences on the real class with raw coordinates shifted by -2..2 cells per coordinate and a face menu '
                '(k/16 + e, k in {0,16,-16,32,+-1,15,17}, e in {0,+-1e-17,+-1e-16,+-2^-53,+-2^-52,+-1e-15}); positions must be in [0,1) as floats '
                'and equal the grid value, displacements = minimum-image steps that telescope, cumulative displacements = unwrapped walk, '
                'distances^2 * N^2 = w^T G w (integer metric tensor, 6 cell families x 3 orientations). Non-trivial = judged return value.')
    rep.assumptions = ['per-step displacement never exactly half a cell (ambiguous under np.around half-to-even)',
                       'grid /16 inputs: all arithmetic of the implementation is exact in binary floating point; distances compared by their squares']
    for (N, T) in ([(4, 4)] if quick else [(4, 5), (6, 4)]):
        r = core.model_check('MC_Wrap', wrap_cfg(N, T), workers=8, timeout=1800)
        rep.add_model(f'MC_Wrap N={N} T={T}', r)
    r = core.model_check('MC_Trajectory', c15.mc_cfg(4 if quick else 5, 3, ['ReturnsOk', 'AbsStable']), workers=8, timeout=1800)
    rep.add_model('MC_Trajectory (ReturnsOk along every call sequence)', r)
    c15.leg_b(rep, 60 if quick else 1000, 20, ACTS, judged=JUDGED, seed_off=1, Tmax=14 if quick else 20)
    long_runs(rep, 10007 if quick else 70001)
    rep.exhaustive = True


def long_runs(rep, T):
    """Scale in the number of FRAMES (beyond any block size an implementation may work in): a walk whose steps repeat with a short
    period, every step shorter than half a cell.  By the MC_Wrap lemmas (StepsMinImage, Telescoping, ShiftInvariant) the displacements of
    the wrapped, lattice-shifted coordinates are those steps, whatever the length; the harness holds the real class to that."""
    import numpy as np
    from .. import gen
    core.gemdat_src_first()
    from pymatgen.core import Lattice, Species
    from gemdat import Trajectory
    rng = np.random.default_rng(rep.seed + 101)
    Ng = 16
    for fam, orient in (('tric', 'rot'), ('hex', 'pmg')):
        G = gen.FAMILIES[fam]
        P, A = 7, 3
        steps = rng.integers(-5, 6, size=(P, A, 3))
        steps[0] = rng.integers(1, 6, size=(A, 3))                  # never a zero period
        allsteps = np.tile(steps, (-(-T // P), 1, 1))[:T]
        allsteps[0] = 0
        walk = np.cumsum(allsteps, axis=0)
        base = rng.integers(0, Ng, size=(A, 3))
        raw = np.mod(base[None] + walk, Ng) + Ng * rng.integers(-2, 3, size=(T, A, 3))
        traj = Trajectory(species=[Species('Li')] * A, coords=raw / Ng, lattice=Lattice(gen.lattice_matrix(G, orient, rng)), time_step=1e-15)
        if fam == 'hex':
            traj.positions
        d = np.asarray(traj.displacements) * Ng
        rep.evaluations += 1
        rep.nontrivial += 1
        bad = None
        if d.shape != allsteps.shape or np.abs(d - allsteps).max() > 1e-9:
            t_bad = int(np.argwhere(np.abs(d - allsteps).max(axis=(1, 2)) > 1e-9)[0][0]) if d.shape == allsteps.shape else -1
            bad = ('displacements-not-the-minimum-image-steps-long-run', t_bad)
        c = np.asarray(traj.cumulative_displacements) * Ng
        if bad is None and np.abs(c - walk).max() > 1e-6:
            bad = ('cumulative-displacements-long-run', int(np.argwhere(np.abs(c - walk).max(axis=(1, 2)) > 1e-6)[0][0]))
        p = np.asarray(traj.positions) * Ng
        if bad is None and (np.abs(p - np.mod(base[None] + walk, Ng)).max() > 1e-9 or p.min() < 0 or p.max() >= Ng):
            bad = ('positions-long-run', -1)
        dist = np.asarray(traj.distances_from_base_position())
        Gm = np.array(G, dtype=float)
        expd = np.sqrt(np.einsum('tai,ij,taj->at', walk, Gm, walk)) / Ng
        if bad is None and np.abs(dist - expd).max() > 1e-9 * max(1.0, expd.max()):
            bad = ('distance-from-base-long-run', -1)
        if bad:
            rep.violation({'kind': 'scale', 'clause': bad[0], 'first_frame': bad[1], 'frames': T, 'family': fam})
    rep.extra['long_runs'] = {'frames': T, 'period': 7}
