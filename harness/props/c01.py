"""C01 -- periodic positions/displacements are exact, wrapped, lattice-shift invariant."""
from .. import core
from . import c15

ACTS = {'Construct': 3, 'ConstructFaces': 1, 'FaceProbe': 2, 'ExtendProbe': 1, 'ConstructDisp': 1, 'GetPos': 4, 'GetDisp': 4, 'Frame': 1, 'CumDisp': 3, 'Dist': 3, 'Slice': 1,
        'Filter': 1, 'ReadOnly': 1, 'ApplyDrift': 1, 'Drift': 1, 'Split': 1, 'Extend': 1}
JUDGED = {'GetPos', 'GetDisp', 'CumDisp', 'Dist'}


def wrap_cfg(N, T):
    return '\n'.join(['SPECIFICATION Spec', f'CONSTANTS N = {N}', f' T = {T}', 'INVARIANT InCell', 'INVARIANT SameModOne',
                      'INVARIANT StepsMinImage', 'INVARIANT Telescoping', 'INVARIANT ShiftInvariant', 'INVARIANT DirectDisp',
                      'CHECK_DEADLOCK FALSE', ''])


def run(rep):
    quick = rep.tier == 'quick'
    rep.rule = ('Leg M: MC_Wrap enumerates every raw one-coordinate trajectory (values -N..2N-1 = every lattice shift in {-1,0,1} of every '
                'grid value) up to T frames through the implementation-shaped mode switches: in-cell, same modulo 1, minimum-image steps, '
                'telescoping, shift invariance; MC_Trajectory checks the same return-value clauses along every call sequence. '
                'Leg B: recorded call sequences on the real class with raw coordinates shifted by -2..2 cells per coordinate and a face menu '
                '(k/16 + e, k in {0,16,-16,32,+-1,15,17}, e in {0,+-1e-17,+-1e-16,+-2^-53,+-2^-52,+-1e-15}); positions must be in [0,1) as floats '
                'and equal the grid value, displacements = minimum-image steps that telescope, cumulative displacements = unwrapped walk, '
                'distances^2 * N^2 = w^T G w (integer metric tensor, 6 cell families x 3 orientations). Non-trivial = judged return value.')
    rep.assumptions = ['per-step displacement never exactly half a cell (ambiguous under np.around half-to-even)',
                       'grid /16 inputs: all arithmetic of the implementation is exact in binary floating point; distances compared by their squares']
    for (N, T) in ([(4, 4)] if quick else [(4, 5), (6, 4)]):
        r = core.model_check('MC_Wrap', wrap_cfg(N, T), workers=8, timeout=1800)
        rep.add_model(f'MC_Wrap N={N} T={T}', r)
    r = core.model_check('MC_Trajectory', c15.mc_cfg(4 if quick else 5, 3, ['ReturnsOk', 'AbsStable']), workers=8, timeout=1800)
    rep.add_model('MC_Trajectory (ReturnsOk along every call sequence)', r)
    c15.leg_b(rep, 60 if quick else 1000, 20, ACTS, judged=JUDGED, seed_off=1, Tmax=14 if quick else 20)
    rep.exhaustive = True
