"""C08 -- density volumes conserve every sample and use a consistent voxel mapping."""
import numpy as np

from .. import core, gen, grid_drive


def walker_cfg(dx, dy, dz, diagonal, kind, invs, maxcost=6):
    return '\n'.join(['SPECIFICATION Spec', f'CONSTANTS DX = {dx}', f' DY = {dy}', f' DZ = {dz}', ' Energies = {0, 1, 2}', ' WithBlocked = TRUE',
                      f' MaxCost = {maxcost}', f' Diagonal = {"TRUE" if diagonal else "FALSE"}', f' Kind = "{kind}"'] +
                     [f'INVARIANT {i}' for i in invs] + ['CHECK_DEADLOCK FALSE', ''])


def judge(rep, recs, module='TraceGrid'):
    metas = [r.pop('meta', None) for r in recs]
    verdicts = core.validate_traces(module, recs, timeout=2400)
    rep.add_trace_stats()
    kf = {k['id']: k for k in core.known_findings(rep.prop)}
    out = []
    for rec, meta, (v, act) in zip(recs, metas, verdicts):
        rep.evaluations += 1
        out.append(v)
        if v == 'ok':
            continue
        if v.startswith('known:') and v.split(':', 1)[1] in kf:
            fid = v.split(':', 1)[1]
            rep.known_finding(fid, kf[fid]['what'], {'meta': meta})
            continue
        rep.violation({'kind': 'leg-B', 'clause': v, 'meta': meta, 'record': rec})
    rep.traces += len(recs)
    return out


def run(rep):
    quick = rep.tier == 'quick'
    core.gemdat_src_first()
    rep.rule = ('Proof: TLAPS proves BandHolds (n = L div res gives res <= L/n < 2 res for all naturals L >= res >= 1) and RoundTripHolds '
                '(voxel -> centre -> voxel for every n and index) in spec/GridLemmas.tla. Leg M: TLC evaluates the integer lemmas for all n <= 64 (voxel index -> centre -> index) and all L <= 60, res <= L '
                '(n = L div res gives res <= L/n < 2 res) as ASSUMEs of MC_Walker. Leg B: trajectories with samples on odd numerators over 128 '
                '(never on a voxel edge) or on the /64 grid with power-of-two voxel counts (samples exactly on edges), 1-7 frames x 1-5 atoms, '
                'raw coordinates shifted by whole cells, 6 cell families x 3 orientations (unequal axes), random resolution with L/res kept '
                '0.02 away from integers; TraceGrid checks grid size = L div res per axis, edge band, voxel sum = frames x atoms and the full '
                'set of (voxel, count) pairs = floor(coordinate x grid size). Round trip for every index of every n up to 512 (quick) / 4096. Scale: a judged small trajectory repeated to > 2^20 samples must give the '
                'small volume times the number of repeats. '
                'Non-trivial = volume record with >= 2 occupied voxels.')
    rep.assumptions = ['cell lengths are integers (sqrt of the diagonal of the integer metric tensor) and L/res is >= 0.02 from an integer',
                       'a sample sits on a voxel edge only when the voxel count is a power of two (edge exactly representable)']
    r = core.model_check('MC_Walker', walker_cfg(1, 1, 2, False, 'sum', ['NeverCheaper']), workers=2, timeout=600)
    rep.add_model('MC_Walker 1x1x2 (carries the C08 ASSUME lemmas RoundTrip(n<=64), ResolutionBand(L<=60))', r)
    # the same two lemmas for ALL naturals, by the TLA+ proof system (spec/GridLemmas.tla)
    obl, proved = core.run_tlaps('GridLemmas')
    rep.extra['tlaps'] = {'module': 'GridLemmas', 'theorems': ['BandHolds', 'RoundTripHolds'], 'obligations': obl, 'proved': proved}
    if proved != obl:
        rep.violation({'kind': 'proof', 'clause': 'tlaps-obligation-failed', 'obligations': obl, 'proved': proved})
    rng = np.random.default_rng(rep.seed + 8)
    fams = list(gen.FAMILIES)
    recs = []
    n = 90 if quick else 1500
    for b in range(n):
        recs.append(grid_drive.volume_record(rng, b, fams[b % len(fams)], ['chol', 'pmg', 'rot'][b % 3], dyadic=(b % 5 == 0)))
    ns = list(range(1, 65)) + ([128, 255, 256, 511, 512] if quick else [100, 128, 255, 256, 511, 512, 1000, 1024, 2047, 2048, 4095, 4096])
    for k, nn in enumerate(ns):
        recs.append(grid_drive.roundtrip_record(n + k, nn))
    # scale: a TLC-judged small trajectory repeated to more than 2^20 (thorough: 2^21 + odd) samples: counts must scale exactly
    from pymatgen.core import Lattice, Species
    from gemdat import Trajectory, trajectory_to_volume
    for total in ([2 ** 20 + 4099] if quick else [2 ** 20 + 4099, 2 ** 21 + 12345]):
        base = grid_drive.volume_record(rng, n + 5000 + total, 'tric', 'rot')
        small_T, A = len(base['pos']), len(base['pos'][0])
        K = -(-total // (small_T * A))
        Mx = gen.lattice_matrix(gen.FAMILIES['tric'], 'rot', rng)
        kk = np.array(base['pos'])
        big = Trajectory(species=[Species('Li')] * A, coords=np.tile(kk / base['N'], (K, 1, 1)), lattice=Lattice(Mx), time_step=1e-15)
        small = Trajectory(species=[Species('Li')] * A, coords=kk / base['N'], lattice=Lattice(Mx), time_step=1e-15)
        res = base['meta']['resolution']
        vs, vb = np.asarray(trajectory_to_volume(small, resolution=res).data), np.asarray(trajectory_to_volume(big, resolution=res).data)
        rep.evaluations += 1
        rep.nontrivial += 1
        rep.extra.setdefault('scale_cases', []).append({'samples': int(K * small_T * A), 'repeats': int(K)})
        if vs.shape != vb.shape or not np.array_equal(vb, vs * K) or int(vb.sum()) != K * small_T * A:
            rep.violation({'kind': 'scale', 'clause': 'volume-of-repeated-trajectory-is-not-the-repeated-volume', 'samples': int(K * small_T * A),
                           'voxel_sum': int(vb.sum()), 'expected_sum': int(K * small_T * A)})
        recs.append(base)
    # scale along ONE axis: elongated cells with more than 2^16 (thorough: 2^17) voxels on the long axis, judged by TraceGrid like any other
    for axis in range(3):
        recs.append(grid_drive.volume_record_long(rng, n + 7000 + axis, axis, 15000 if quick else 26000))
    rep.extra['elongated_cells'] = {'voxels_on_long_axis': recs[-1]['dims'][2]}
    nt = sum(1 for r in recs if r['act'] == 'Volume' and len(r['cells']) >= 2)
    for r in recs[:3]:
        rep.sample({k: r[k] for k in ('dims', 'L', 'res', 'cells', 'total', 'meta') if k in r})
    judge(rep, recs)
    rep.nontrivial += nt
