"""C17 -- shape analysis collects exactly the symmetry-equivalent points in the radius."""
import math

import numpy as np

from .. import core, gen

# space group -> cell family with a compatible integer metric tensor
GROUPS = [('P1', 'tric'), ('P-1', 'tric2'), ('P-1', 'cubic'), ('P2_1/c', 'mono'), ('Pnma', 'ortho'), ('P4/mmm', 'tetra'),
          ('P6_3/mmc', 'hex'), ('Fm-3m', 'cubic')]
EXTRA_FAMILIES = {'tetra': [[64, 0, 0], [0, 64, 0], [0, 0, 100]]}
N = 48


def mc_cfg(n, exact, group):
    return '\n'.join(['SPECIFICATION Spec', f'CONSTANTS N = {n}', f' Exact = {"TRUE" if exact else "FALSE"}', f' Group = "{group}"',
                      'INVARIANT WithinRadius', 'INVARIANT DistancePreserved', 'INVARIANT AllIsometries', 'CHECK_DEADLOCK FALSE', ''])


def make_case(rng, b, sg_name, fam, orient, supercell=None):
    from pymatgen.core import Lattice, PeriodicSite, Species
    from pymatgen.symmetry.groups import SpaceGroup
    from gemdat import Trajectory
    from gemdat.shape import ShapeAnalyzer
    G = EXTRA_FAMILIES.get(fam) or gen.FAMILIES[fam]
    # radius < half the smallest perpendicular width => the within-radius image is the centred representative: R = 0 is exact
    R = 0
    M = gen.lattice_matrix(G, orient, rng)
    lattice = Lattice(M)
    sg = SpaceGroup(sg_name)
    ops = []
    Gm = np.array(G)
    for op in sg.symmetry_ops:
        W = np.rint(op.rotation_matrix).astype(int)
        w = op.translation_vector * N
        wi = np.rint(w).astype(int)
        if np.abs(op.rotation_matrix - W).max() > 1e-9 or np.abs(w - wi).max() > 1e-6:
            raise core.Machinery(f'operation of {sg_name} not on the grid')
        if not np.array_equal(W.T @ Gm @ W, Gm):
            raise core.Machinery(f'{sg_name} not compatible with cell family {fam}')
        Winv = np.rint(np.linalg.inv(W)).astype(int)
        ops.append({'W': W.tolist(), 'Winv': Winv.tolist(), 'w': wi.tolist()})
    w_perp, _ = gen.perp_widths(G)
    # site: anywhere, with a bias to faces/corners
    site = [int(rng.choice([0, 1, N - 1, N // 2, int(rng.integers(0, N))])) for _ in range(3)]
    rmax = 0.45 * min(w_perp)
    for _ in range(1000):
        Q = int(rng.integers(int((0.5 * N) ** 2), int((rmax * N) ** 2)))
        break
    radius = math.sqrt(Q + 0.5) / N
    thr = Q + 1
    nP = int(rng.integers(3, 13 if len(ops) <= 16 else 7))
    # points: near images of the site under random operations, plus random ones
    P = []
    lens = [math.sqrt(G[i][i]) for i in range(3)]
    for _ in range(nP):
        if rng.random() < 0.75:
            op = ops[int(rng.integers(0, len(ops)))]
            sym = np.array(op['W']) @ np.array(site) + np.array(op['w'])
            m = [max(1, int(math.ceil(1.2 * radius * N / lens[i]))) for i in range(3)]
            off = [int(rng.integers(-m[i], m[i] + 1)) for i in range(3)]
            P.append([int((sym[i] + off[i]) % N) for i in range(3)])
        else:
            P.append([int(x) for x in rng.integers(0, N, size=3)])
    input_changed = False
    psite = PeriodicSite('Si', np.array(site) / N, lattice, label='A')
    sa = ShapeAnalyzer(lattice=lattice, sites=[psite], spacegroup=sg)
    if supercell is None:
        arr = np.array(P) / N
        sa.analyze_positions(arr, radius=radius)
        shapes = sa.analyze_positions(arr, radius=radius)          # same input array a second time
    else:
        sc = np.array(supercell)
        # positions in the supercell: unit-cell position + a random cell offset, expressed in supercell fractions
        K = np.array(P) + N * np.array([[int(rng.integers(0, sc[i])) for i in range(3)] for _ in P])
        frac = K / (N * sc)
        T = 1
        traj = Trajectory(species=[Species('Li')] * len(P), coords=frac[None, :, :], lattice=Lattice(M * sc[:, None]), time_step=1e-15)
        gen.perturb(traj, rng)
        before = np.array(traj.positions, copy=True)
        if rng.random() < 0.6:
            traj.displacements             # the trajectory is handed over in its displacement representation
        sa.analyze_trajectory(traj, supercell=tuple(int(x) for x in sc), radius=radius)
        # analysing must not alter the trajectory: the second analysis of the same object is the one that is judged
        if rng.random() < 0.5:
            traj.cumulative_displacements
        shapes = sa.analyze_trajectory(traj, supercell=tuple(int(x) for x in sc), radius=radius)
        input_changed = not np.array_equal(np.asarray(traj.positions), before)
    sh = shapes[0]
    coords = np.asarray(sh.coords, dtype=float).reshape(-1, 3)
    fr = coords @ np.linalg.inv(M) * N
    k = np.rint(fr)
    bad = np.abs(fr - k) > 1e-6
    got = np.where(bad, -999999, k).astype(int)
    order = np.lexsort(got.T[::-1]) if len(got) else []
    got = got[order] if len(got) else got
    d = sh.distances()
    dsq = (np.asarray(d)[order] ** 2 * N * N) if len(got) else np.array([])
    dsq_i = [int(round(x)) if abs(x - round(x)) <= 1e-6 * max(1.0, x) else -999999 for x in dsq]
    rec = {'b': b, 'G': G, 'N': N, 'R': R, 'thr': thr, 'ops': ops, 'site': site, 'P': P, 'got': got.tolist(), 'dsq': dsq_i,
           'inputChanged': bool(input_changed),
           'meta': {'spacegroup': sg_name, 'family': fam, 'orientation': orient, 'radius': radius, 'n_ops': len(ops),
                    'supercell': None if supercell is None else [int(x) for x in supercell]}}
    return rec


def run(rep):
    quick = rep.tier == 'quick'
    core.gemdat_src_first()
    rep.rule = ('Leg M: line group {1, -1, -1+1/2} and plane group p4 (+ inversion with translation) on N = 12: for every site and point '
                'position and every radius, exact re-imaging keeps the collected point within the radius and preserves its distance; the '
                'original +-1 re-imaging (negative control) is refuted. Leg B: space groups P1, P-1, P2_1/c, Pnma, P4/mmm, P6_3/mmc, Fm-3m '
                '(operations from pymatgen: integer matrices in the fractional basis, translations on the /48 grid; W^T G W = G asserted) with '
                'compatible integer metric tensors in 3 orientations, sites near faces/corners, radii up to 0.45 of the smallest perpendicular '
                'width, points planted near random symmetry images; analyze_positions and analyze_trajectory(supercell) results (Cartesian -> '
                'fractional -> grid integers) compared as a multiset with the spec, plus distances(). Non-trivial = case with >= 2 collected points.')
    rep.assumptions = ['radius below half the smallest perpendicular width (stated in the property); r^2 N^2 = Q + 0.5',
                       'positions and site on the /48 grid; supercell positions on the /(48 s) grid']
    for group, n in ([('line', 12)] if quick else [('line', 12), ('line', 16), ('p4', 8)]):
        r = core.model_check('MC_Shape', mc_cfg(n, True, group), workers=8, timeout=2400)
        rep.add_model(f'MC_Shape group={group} N={n} Exact=TRUE', r)
    r = core.model_check('MC_Shape', mc_cfg(12, False, 'line'), workers=4, expect_violation='WithinRadius')
    rep.add_model('MC_Shape Exact=FALSE (negative control: +-1 re-imaging as originally coded)', r, negative_control=True)
    rng = np.random.default_rng(rep.seed + 17)
    n = 64 if quick else 1000
    recs = []
    for b in range(n):
        sg, fam = GROUPS[b % len(GROUPS)]
        sc = None
        if b % 4 == 3:
            sc = [int(x) for x in rng.integers(1, 3, size=3)]
        recs.append(make_case(rng, b, sg, fam, ['chol', 'pmg', 'rot'][b % 3], sc))
    metas = [r_.pop('meta') for r_ in recs]
    verdicts = core.validate_traces('TraceShape', recs, timeout=2400)
    rep.add_trace_stats()
    for rec, meta, (v, _) in zip(recs, metas, verdicts):
        rep.evaluations += 1
        if len(rec['got']) >= 2:
            rep.nontrivial += 1
        if v != 'ok':
            rep.violation({'kind': 'leg-B', 'clause': v, 'meta': meta, 'record': {k: rec[k] for k in rec if k != 'ops'}})
        elif rec['b'] % 16 == 1:
            rep.sample({'meta': meta, 'site': rec['site'], 'P': rec['P'][:4], 'collected': rec['got'][:4]})
    rep.traces += len(recs)
    # ---- beyond TLC's 32-bit integers: sites a few 1e-7 off a special position (see harness/shape_fine.py).  The Python mirror of the
    # spec's membership rule is first bound to the spec: on every regular case TLC accepted it must count exactly the collected points.
    from .. import shape_fine as sf
    for rec, (v, _) in zip(recs, verdicts):
        if v == 'ok' and rec['R'] == 0:
            mc = sf.mirror_count(rec['G'], rec['N'], rec['N'] // 48, rec['ops'], rec['site'], rec['P'], rec['thr'])
            if mc != len(rec['got']):
                raise core.Machinery(f'shape_fine.mirror_count disagrees with TraceShape on case {rec["b"]}: {mc} vs {len(rec["got"])}')
    n_fine = n_bad = 0
    for b in range(40 if quick else 600):
        sg, fam = GROUPS[b % len(GROUPS)]
        G = EXTRA_FAMILIES.get(fam) or gen.FAMILIES[fam]
        r_ = sf.make_fine_case(rng, sg, fam, ['chol', 'pmg', 'rot'][b % 3], sf.ops_of(sg, G), G)
        if r_ is None:
            continue
        n_fine += 1
        got, expd, dmax, rad, meta = r_
        rep.evaluations += 1
        rep.nontrivial += 1
        clause = None
        if got != expd:
            clause = 'number-of-collected-points-near-special-position'
        elif dmax >= rad:
            clause = 'collected-point-outside-radius-near-special-position'
        if clause and n_bad < 3:
            n_bad += 1
            rep.violation({'kind': 'fine-grid', 'clause': clause, 'collected': got, 'expected': expd, 'largest_distance': dmax, 'meta': meta})
    rep.traces += n_fine
    rep.extra['fine_grid_cases_near_special_positions'] = n_fine
    # ---- scale in the number of positions (beyond any block size): a judged-size set of positions repeated K times gives K times the
    # count the membership rule gives for the set (mirror_count, bound to TraceShape above)
    from pymatgen.core import Lattice as _L, PeriodicSite as _PS
    from pymatgen.symmetry.groups import SpaceGroup as _SG
    from gemdat.shape import ShapeAnalyzer as _SA
    for sg_name, fam in (('P-1', 'tric2'), ('Pnma', 'ortho')):
        G = EXTRA_FAMILIES.get(fam) or gen.FAMILIES[fam]
        ops = sf.ops_of(sg_name, G)
        M = gen.lattice_matrix(G, 'pmg', rng)
        w_perp, _ = gen.perp_widths(G)
        site = [int(x) for x in rng.integers(0, N, size=3)]
        Q = int(rng.integers(int((0.5 * N) ** 2), int((0.4 * min(w_perp) * N) ** 2)))
        radius = math.sqrt(Q + 0.5) / N
        P = []
        while len(P) < 9:
            op = ops[int(rng.integers(0, len(ops)))]
            img = sf.image(op, site, N, 1)
            P.append([int((img[i] + rng.integers(-6, 7)) % N) for i in range(3)])
        expect_small = sf.mirror_count(G, N, 1, ops, site, P, Q + 1)
        K = -(-(150000 if quick else 450000) // len(P))
        sa = _SA(lattice=_L(M), sites=[_PS('Si', np.array(site) / N, _L(M), label='A')], spacegroup=_SG(sg_name))
        big = np.tile(np.array(P) / N, (K, 1))
        n_big = len(np.asarray(sa.analyze_positions(big, radius=radius)[0].coords).reshape(-1, 3))
        rep.evaluations += 1
        rep.nontrivial += 1
        if n_big != K * expect_small:
            rep.violation({'kind': 'scale', 'clause': 'count-of-collected-points-many-positions', 'positions': int(len(big)), 'collected': n_big,
                           'expected': K * expect_small, 'spacegroup': sg_name})
    rep.extra['many_positions'] = 150000 if quick else 450000
    if n_fine == 0:
        raise core.Machinery('no fine-grid case could be generated')
    rep.exhaustive = True
