"""C19 -- time-partitioning for statistics conserves states and events."""
from .. import gen
from .. import sites_checks as sc


def run(rep):
    quick = rep.tier == 'quick'
    rep.rule = ('Leg M: for every history up to length T, every cut time and every residence, the jumps of the classifier run on the '
                'events before / after the cut (re-based) are a subset of the jumps of the whole and their counts add up to no more. '
                'Leg B: Transitions.split(k), per-part jumps, Trajectory.split(k, equal_parts) on random histories; TraceSites checks: '
                'k parts, state parts concatenate to the original, every original event exactly once under a non-negative '
                'non-decreasing offset witness (found exhaustively by the harness, verified by TLC), re-based times non-negative, '
                'chronological, part jumps = classifier(part events) and are jumps of the whole; trajectory parts are contiguous '
                'non-overlapping ordered frame ranges (equal length when requested); unless trimmed to equal length they follow one another without '
                'a gap from frame 0 to the last or next-to-last frame of the source (every number of frames <= 130/400 x every number of parts <= 16/40). '
                'Where the inner boundaries fall is not checked.')
    rep.assumptions = ['n_parts <= number of events (stated in the property) and <= frames-1 for trajectories',
                       'all frames of a trajectory are distinct (jitter), so a part matches exactly one frame range']
    sc.leg_m(rep, 'C19', [(5, 2, 1, 3)] if quick else [(7, 2, 1, 3), (5, 3, 1, 2)])
    sc.leg_b(rep, 'C19', 30 if quick else 300, 40 if quick else 60, 3 if quick else 4, 4 if quick else 5,
             list(gen.FAMILIES), ms=(0, 3, 6), ks=(1, 2, 3, 4, 7))
    sc.split_sweep(rep, 130 if quick else 400, 16 if quick else 40)
    rep.exhaustive = True
