"""C16 -- trajectory caching is faithful and survives an interrupted cache write."""
import contextlib
import io
import os
import shutil
import sys
from pathlib import Path

import numpy as np

from .. import core, io_synth


def mc_cfg(L, key_all, cycles, invs, export=False):
    b = lambda x: 'TRUE' if x else 'FALSE'
    return '\n'.join(['SPECIFICATION Spec', f'CONSTANTS L = {L}', f' KeyAll = {b(key_all)}', f' MaxCycles = {cycles}',
                      f' DoExport = {b(export)}', 'VIEW View'] + [f'INVARIANT {i}' for i in invs] + ['CHECK_DEADLOCK FALSE', ''])


class Loader:
    """One loader (vasprun or lammps) with the four argument sets <<h, u>> of the model mapped to real arguments."""

    def __init__(self, kind, root: Path):
        self.kind = kind
        self.root = root
        self.src = root / 'src'
        if kind == 'vasprun':
            io_synth.write_vasprun(self.src / 'vasprun.xml', T=6, scale=True)
        else:
            io_synth.write_lammps(self.src, T=4)
        self.fresh = {}
        self.image = {}
        self.cname = {}
        # the default cache name may depend on the source path: probe it in the directory the checks work in
        self.work = root / 'work'
        shutil.copytree(self.src, self.work)
        for a in [(h, u) for h in (1, 2) for u in (1, 2)]:
            for p in self.work.glob('*.cache'):
                p.unlink()
            t = self.call(a, self.work)
            caches = sorted(p.name for p in self.work.glob('*.cache'))
            if len(caches) != 1:
                raise core.Machinery(f'expected one cache file, found {caches}')
            self.fresh[a] = t
            self.cname[a] = caches[0]
            self.image[a] = (self.work / caches[0]).read_bytes()
        for p in self.work.glob('*.cache'):
            p.unlink()

    def kwargs(self, a):
        h, u = a
        if self.kind == 'vasprun':
            kw = {}
            if h == 2:
                kw['ionic_step_skip'] = 2
            if u == 2:
                kw['constant_lattice'] = False
            return kw
        kw = {'temperature': 300 if h == 1 else 500, 'time_step': 1.0}
        if u == 2:
            kw['type_mapping'] = {'LI': 'Na', 'S': 'O'}
        return kw

    def call(self, a, d, cache=None):
        from gemdat import Trajectory
        _beat(b'B')
        try:
            kw = self.kwargs(a)
            if cache is not None:
                kw['cache'] = cache
            with contextlib.redirect_stdout(io.StringIO()):
                if self.kind == 'vasprun':
                    return Trajectory.from_vasprun(d / 'vasprun.xml', **kw)
                return Trajectory.from_lammps(coords_file=d / 'traj.xyz', data_file=d / 'lammps.data', **kw)
        finally:
            _beat(b'E')


def same(t1, t2):
    """Observable equality of two trajectories."""
    try:
        if [str(s) for s in t1.species] != [str(s) for s in t2.species]:
            return 'species'
        if t1.coords_are_displacement != t2.coords_are_displacement:
            return 'mode'
        if np.shape(t1.coords) != np.shape(t2.coords) or not np.array_equal(np.asarray(t1.coords), np.asarray(t2.coords)):
            return 'coords'
        if not np.array_equal(np.asarray(t1.base_positions), np.asarray(t2.base_positions)):
            return 'base_positions'
        if t1.constant_lattice != t2.constant_lattice or not np.array_equal(np.asarray(t1.lattice), np.asarray(t2.lattice)):
            return 'lattice'
        if t1.time_step != t2.time_step:
            return 'time_step'
        if t1.metadata != t2.metadata:
            return 'metadata'
    except Exception as e:          # noqa
        return f'not-comparable:{type(e).__name__}'
    return None


def _read_back_in_child(f, expected, budget=20):
    """from_cache(f) compared with `expected`, in a forked child under a wall-clock budget: a cache file that is not what a fresh parse
    writes may be anything (a damaged prefix with a pickle appended ...), and unpickling anything may take for ever inside C code where
    no Python-level timeout reaches.  Returns None (equal) or the reason."""
    import os
    import time
    from gemdat import Trajectory
    r, w = os.pipe()
    pid = os.fork()
    if pid == 0:
        try:
            os.close(r)
            try:
                why = same(Trajectory.from_cache(f), expected)
            except BaseException as e:          # noqa
                why = 'cache-unreadable:' + type(e).__name__
            os.write(w, (why or 'OK').encode()[:200])
        finally:
            os._exit(0)
    os.close(w)
    t0 = time.time()
    while True:
        done, _ = os.waitpid(pid, os.WNOHANG)
        if done:
            break
        if time.time() - t0 > budget:
            os.kill(pid, 9)
            os.waitpid(pid, 0)
            os.close(r)
            return 'cache-read-does-not-terminate'
        time.sleep(0.005)
    out = os.read(r, 300).decode(errors='replace')
    os.close(r)
    return None if out == 'OK' else (out or 'cache-unreadable:child-died')


def check_call(rep, ld, a, d, ctx):
    """Call the loader with argument set a in directory d; result must equal the fresh parse, cache must be complete."""
    from gemdat import Trajectory
    try:
        t = ld.call(a, d)
    except Exception as e:
        rep.violation({'kind': 'fault', 'clause': 'loader-raised', 'loader': ld.kind, 'args': a, 'context': ctx, 'error': repr(e)})
        return
    why = same(t, ld.fresh[a])
    if why:
        rep.violation({'kind': 'fault', 'clause': 'result-differs-from-fresh-parse:' + why, 'loader': ld.kind, 'args': a, 'context': ctx})
        return
    f = d / ld.cname[a]
    try:
        data = f.read_bytes()
    except OSError as e:
        data = None
        why = 'cache-missing:' + type(e).__name__
    if data is not None:
        if data == ld.image[a]:
            why = None                       # byte-identical to the cache a fresh parse writes
        else:
            why = _read_back_in_child(f, ld.fresh[a])
    if why:
        rep.violation({'kind': 'fault', 'clause': 'cache-not-complete-after-return:' + why, 'loader': ld.kind, 'args': a, 'context': ctx})
        if why == 'cache-read-does-not-terminate' or len(rep.violations) >= 25:
            raise _EarlyStop()          # the verdict is in; every further case would cost the full read-back budget again


def replay(rep, ld, hist, L, workdir):
    """Replay one exported behaviour (list of events) on the real loader."""
    d = workdir
    for p in d.glob('*.cache'):
        p.unlink()
    pending = None
    for ev in hist:
        op = ev[0]
        if op == 'Call':
            pending = tuple(ev[1])
        elif op == 'Return':
            check_call(rep, ld, pending, d, {'behaviour': hist})
            pending = None
        elif op == 'Crash':
            pc, wpos = ev[1], ev[2]
            if pc == 'write':
                img = ld.image[pending]
                (d / ld.cname[pending]).write_bytes(img[: (len(img) * wpos) // L])
            # a crash before open() leaves the disk untouched
            pending = None
        elif op == 'Corrupt':
            (d / ld.cname[tuple(ev[1])]).write_bytes(b'\x80\x04garbage' * 3)
        else:
            raise core.Machinery(f'unknown event {ev}')


_HEARTBEAT = [None]
_ROOT = [None]            # scratch directory, created by the watching process so that it can remove it whatever happens to the worker


class _EarlyStop(Exception):
    pass


def _run_guarded(rep):
    try:
        _run(rep)
    except _EarlyStop:
        rep.evaluations += 1
        rep.nontrivial += 1


def _beat(mark=b'B'):
    """b'B': a loader / cache-read step begins; b'E': it has ended.  The watchdog only times the span between the two."""
    if _HEARTBEAT[0] is not None:
        try:
            os.write(_HEARTBEAT[0], mark)
        except OSError:
            pass


def run(rep):
    """The body runs in a forked worker that reports progress before every loader call; this process only watches.  Unpickling a
    damaged cache happens in C code that no Python-level timeout can interrupt: if a single step (a loader call on a file of a few
    kilobytes, normally milliseconds) makes no progress for STALL seconds, the worker is killed and the run ends with a verdict
    instead of hanging."""
    import select
    import time
    STALL = 180
    _ROOT[0] = core.scratch('c16-')
    try:
        _watch(rep, STALL, select, time)
    finally:
        shutil.rmtree(_ROOT[0], ignore_errors=True)


def _watch(rep, STALL, select, time):
    r, w = os.pipe()
    sys.stdout.flush()
    sys.stderr.flush()
    pid = os.fork()
    if pid == 0:
        os.close(r)
        _HEARTBEAT[0] = w
        code = 2
        try:
            code = core.run_and_finish(_run_guarded, rep)
            sys.stdout.flush()
            sys.stderr.flush()
        finally:
            os._exit(code)
    os.close(w)
    last, in_step = time.time(), False
    while True:
        ready, _, _ = select.select([r], [], [], 1.0)
        if ready:
            chunk = os.read(r, 65536)
            if chunk == b'':
                break                       # the worker has exited
            last, in_step = time.time(), chunk[-1:] == b'B'
        elif in_step and time.time() - last > STALL:
            os.kill(pid, 9)
            os.waitpid(pid, 0)
            os.close(r)
            rep.evaluations += 1
            rep.nontrivial += 1
            rep.violation({'kind': 'fault', 'clause': 'loader-or-cache-read-makes-no-progress',
                           'detail': f'no progress for {STALL} s in a step that takes milliseconds (loading / re-reading a cache file of a few kB)'})
            if not rep.samples:
                rep.sample({'note': 'run ended by the watchdog'})
            return
    os.close(r)
    _, status = os.waitpid(pid, 0)
    raise SystemExit(os.waitstatus_to_exitcode(status) if os.WIFEXITED(status) else 2)


def _run(rep):
    quick = rep.tier == 'quick'
    core.gemdat_src_first()
    from gemdat import Trajectory
    rep.level = 'model_checking'
    rep.rule = ('Leg M: loader protocol (exists? / try-read / parse / open-truncate / write chunks / close) with a crash at every step and '
                'corruption of any cache file, 4 argument sets (2 differing in an argument hashed by the original code x 2 differing in a '
                'result-relevant argument that was not), L chunks, <= MaxCycles calls/corruptions: ResultCorrect, CompleteAfterReturn, NoTornRead, '
                'KeysSeparate; negative control KeyAll=FALSE (original key) must be refuted. Leg A: every behaviour of the model replayed on '
                'from_vasprun (ionic_step_skip x constant_lattice) and a sample on from_lammps (temperature x type_mapping) with synthetic source '
                'files; a crash in the write phase after chunk c = cache file holding the corresponding byte prefix. Fault enumeration: every '
                'byte prefix of the real cache image, empty file, garbage files, for every argument set; after each the call must return the '
                'fresh parse and leave a loadable, equal cache. to_cache/from_cache round trip in position and displacement mode. '
                'Non-trivial = behaviour with at least one crash or corruption / distinct (prefix length, argument set).')
    rep.assumptions = ['an interrupted pickle.dump leaves a byte prefix of the complete image (single open(...,"wb") + sequential writes)',
                       'from_gromacs needs a binary .tpr that cannot be synthesised offline: its identical protocol is covered on the model only',
                       'trajectory equality = species, mode flag, coords, base positions, lattice(s), constant_lattice, time step, metadata']
    L = 3
    invs = ['ResultCorrect', 'CompleteAfterReturn', 'NoTornRead', 'KeysSeparate']
    r = core.model_check('MC_DiskCache', mc_cfg(L if quick else 4, True, 3 if quick else 4, invs), workers=8, timeout=2400)
    rep.add_model(f'MC_DiskCache KeyAll=TRUE L={L if quick else 4} MaxCycles={3 if quick else 4}', r)
    r = core.model_check('MC_DiskCache', mc_cfg(3, False, 3, ['ResultCorrect']), workers=4, expect_violation='ResultCorrect')
    rep.add_model('MC_DiskCache KeyAll=FALSE (negative control: cache name as originally coded)', r, negative_control=True)

    root = _ROOT[0] if _ROOT[0] is not None else core.scratch('c16-')
    try:
        loaders = {k: Loader(k, root / k) for k in ('vasprun', 'lammps')}
        for ld in loaders.values():          # different parser options use different default cache files
            names = set(ld.cname.values())
            if len(names) != 4:
                rep.violation({'kind': 'fault', 'clause': 'different-options-share-a-cache-file', 'loader': ld.kind,
                               'names': {str(k): v for k, v in ld.cname.items()}})
        # ---- Leg A
        cyc = 2 if quick else 3
        r = core.run_tlc('MC_DiskCache', mc_cfg(L, True, cyc, ['Export'], export=True), workers=1, timeout=2400)
        if not r.completed:
            raise core.Machinery('MC_DiskCache export failed\n' + r.out[-2000:])
        cases = r.json_prints()
        rep.states += r.distinct
        rep.transitions += r.generated
        nontriv = 0
        for kind, ld in loaders.items():
            work = ld.work
            stride = 1 if kind == 'vasprun' else (7 if quick else 23)
            n = 0
            for ci, c in enumerate(cases):
                if ci % stride:
                    continue
                hist = c['hist']
                if not any(ev[0] == 'Return' for ev in hist):
                    continue
                replay(rep, ld, hist, L, work)
                n += 1
                if any(ev[0] in ('Crash', 'Corrupt') for ev in hist):
                    nontriv += 1
                if n % 400 == 1:
                    rep.sample({'leg': 'A', 'loader': kind, 'behaviour': hist})
            rep.traces += n
            rep.evaluations += n
            rep.extra.setdefault('leg_A', {})[kind] = {'behaviours_exported': len(cases), 'replayed': n}
        rep.nontrivial += nontriv
        # ---- fault enumeration: every byte prefix
        seen = set()
        for kind, ld in loaders.items():
            work = ld.work
            step = 1 if (kind == 'vasprun' or not quick) else 8
            if kind == 'lammps' and not quick:
                step = 2
            for a in ld.image:
                img = ld.image[a]
                cuts = sorted(set(list(range(0, len(img), step)) + [len(img) - 1, len(img)]))
                for k in cuts:
                    for p in work.glob('*.cache'):
                        p.unlink()
                    (work / ld.cname[a]).write_bytes(img[:k])
                    check_call(rep, ld, a, work, {'prefix_bytes': k, 'of': len(img)})
                    seen.add((kind, a, k))
                unreadable = [b'', b'\x00' * 64, b'not a pickle', img[::-1], img[10:], img + b'trailing',
                              b'cno_such_module_xyz\nThing\n.',            # ModuleNotFoundError (cache written with another environment)
                              b'cgemdat.trajectory\nNoSuchClass\n.',       # AttributeError (class renamed between versions)
                              b'I12a\n.', b'Fabc\n.',                       # ValueError
                              b'hello world, this is not a cache\n',        # UnpicklingError
                              b'\x80\x04\x95\xff\xff\xff\xff\xff\xff\xff\xff.',   # OverflowError
                              b"cbuiltins\nobject\n)R}S'a'\nI1\nsb.",       # AttributeError while building
                              img[:len(img) // 2] + img[len(img) // 2 + 7:]]   # a hole in the middle
                for gi, garbage in enumerate(unreadable):
                    for p in work.glob('*.cache'):
                        p.unlink()
                    (work / ld.cname[a]).write_bytes(garbage)
                    if gi == 5:
                        continue     # trailing bytes after a complete pickle load fine: not a fault
                    check_call(rep, ld, a, work, {'garbage': gi})
                    seen.add((kind, a, 'g%d' % gi))
                # a foreign but complete image under this name (e.g. copied cache) is outside the property
            # repeated fault / recover cycles
            a, b2 = (1, 1), (1, 2)
            for cyc_i in range(3):
                for p in work.glob('*.cache'):
                    p.unlink()
                (work / ld.cname[a]).write_bytes(ld.image[a][: 100 + 50 * cyc_i])
                check_call(rep, ld, b2, work, {'cycle': cyc_i, 'other-arg-set-truncated': True})
                check_call(rep, ld, a, work, {'cycle': cyc_i})
                check_call(rep, ld, a, work, {'cycle': cyc_i, 'second-call-hits-cache': True})
        rep.evaluations += len(seen)
        rep.nontrivial += len(seen)
        rep.extra['fault_enumeration'] = {'distinct_prefix_or_garbage_cases': len(seen)}
        rep.sample({'leg': 'fault', 'example': 'cache truncated to 137 of %d bytes' % len(loaders['vasprun'].image[(1, 1)])})
        # ---- two source files with the same base name in different directories are different sources
        ld = loaders['lammps']
        for p in ld.work.glob('*.cache'):
            p.unlink()
        alt = root / 'lammps' / 'other_run'
        alt.mkdir()
        txt = (ld.work / 'lammps.data').read_text().replace('0.0 10.0 zlo zhi', '0.0 12.5 zlo zhi')
        (alt / 'lammps.data').write_text(txt)
        from gemdat import Trajectory as _T
        with contextlib.redirect_stdout(io.StringIO()):
            kw = dict(coords_file=ld.work / 'traj.xyz', temperature=300, time_step=1.0)
            fresh_a = _T.from_lammps(data_file=ld.work / 'lammps.data', cache=root / 'fresh_a.cache', **kw)
            fresh_b = _T.from_lammps(data_file=alt / 'lammps.data', cache=root / 'fresh_b.cache', **kw)
            for order in (('a', 'b'), ('b', 'a')):
                for p in ld.work.glob('*.cache'):
                    p.unlink()
                for which in order + order:
                    t = _T.from_lammps(data_file=(ld.work if which == 'a' else alt) / 'lammps.data', **kw)
                    why = same(t, fresh_a if which == 'a' else fresh_b)
                    rep.evaluations += 1
                    if why:
                        rep.violation({'kind': 'fault', 'clause': 'same-named-source-in-another-directory-shares-the-cache:' + why,
                                       'loader': 'lammps', 'order': list(order + order), 'which': which})
        if same(fresh_a, fresh_b) is None:
            raise core.Machinery('the two LAMMPS data files do not differ')
        # ---- to_cache / from_cache round trip in both modes
        for kind, ld in loaders.items():
            for a, t in ld.fresh.items():
                for mode in ('pos', 'disp'):
                    for p in ld.work.glob('*.cache'):
                        p.unlink()
                    t2 = ld.call(a, ld.work)
                    if mode == 'disp':
                        t2.displacements
                    f = root / f'rt-{kind}-{a[0]}{a[1]}-{mode}.cache'
                    import copy
                    snap = copy.deepcopy(t2)                   # what is being saved, taken BEFORE saving
                    t2.to_cache(f)
                    back = Trajectory.from_cache(f)
                    why = same(back, snap)
                    rep.evaluations += 1
                    if why:
                        rep.violation({'kind': 'roundtrip', 'clause': 'to_cache/from_cache:' + why, 'loader': kind, 'args': a, 'mode': mode})
                    why = same(t2, snap)
                    rep.evaluations += 1
                    if why:
                        rep.violation({'kind': 'roundtrip', 'clause': 'to_cache-changed-the-saved-object:' + why, 'loader': kind, 'args': a, 'mode': mode})
        # ---- two different vasprun files in ONE directory whose names agree up to the first dot (vasprun.300K.xml / vasprun.400K.xml):
        # each is loaded twice, in both orders; a source file never gets the other one's trajectory
        from gemdat import Trajectory as _T2
        vdir = root / 'two_runs'
        vdir.mkdir()
        io_synth.write_vasprun(vdir / 'vasprun.300K.xml', T=5, scale=True)
        io_synth.write_vasprun(vdir / 'vasprun.400K.xml', T=7, scale=True)
        io_synth.write_vasprun(vdir / 'run.final.v2.xml', T=4, scale=True)
        names = ['vasprun.300K.xml', 'vasprun.400K.xml', 'run.final.v2.xml']
        with contextlib.redirect_stdout(io.StringIO()):
            ref = {nm: _T2.from_vasprun(vdir / nm, cache=root / f'ref-{nm}.cache') for nm in names}
            for order in (names, names[::-1], names):
                for nm in order:
                    t = _T2.from_vasprun(vdir / nm)
                    why = same(t, ref[nm])
                    rep.evaluations += 1
                    if why:
                        rep.violation({'kind': 'fault', 'clause': 'source-files-with-similar-names-share-a-cache:' + why, 'loader': 'vasprun', 'file': nm,
                                       'caches': sorted(p_.name for p_ in vdir.glob('*.cache'))})
        # ---- the same cache path written twice with different content, read after each write; and read twice
        for kind, ld in loaders.items():
            keys = list(ld.fresh)
            if len(keys) < 2:
                continue
            f = root / f'rewrite-{kind}.cache'
            for a in (keys[0], keys[1], keys[0]):
                ld.fresh[a].to_cache(f)
                for _ in range(2):
                    back = Trajectory.from_cache(f)
                    why = same(back, ld.fresh[a])
                    rep.evaluations += 1
                    if why:
                        rep.violation({'kind': 'roundtrip', 'clause': 'from_cache-after-the-file-was-rewritten:' + why, 'loader': kind, 'args': a})
                    # what a caller does with ITS loaded object must not reach the next caller
                    back.metadata['scribble'] = 1
                    del back
    finally:
        shutil.rmtree(root, ignore_errors=True)
    rep.exhaustive = True
