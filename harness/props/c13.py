"""C13 -- drift correction removes exactly the reference-frame motion."""
from .. import core
from . import c15

ACTS = {'Construct': 2, 'ConstructLoop': 2, 'GetPos': 1, 'GetDisp': 2, 'CumDisp': 1, 'Slice': 1, 'Filter': 1, 'Split': 1, 'ReadOnly': 1,
        'Drift': 4, 'ApplyDrift': 5, 'GaugePair': 2}
JUDGED = {'Drift', 'ApplyDrift', 'Gauge'}


def run(rep):
    quick = rep.tier == 'quick'
    rep.rule = ('Leg M: MC_Trajectory applies apply_drift_correction (transcribed: filter() -> positions of self, self.displacements, new object '
                'from displacements and self.base_positions) along every call sequence: the reference atom of the corrected object does not '
                'move, first frame kept, every object still denotes its ghost. Leg B: recorded drift()/apply_drift_correction() calls with '
                'fixed_species / floating_species / neither, given as str, list or set, Species or Element trajectories, on raw, sliced, '
                'filtered, split and already-corrected objects; the trace spec computes the corrected walk exactly in units 1/(N*L) and checks: '
                'drift value, corrected object = first frame + cumulative (steps - mean reference step), mean reference step zero in every '
                'frame, first frame / species / time step / metadata unchanged, idempotence (second correction with the same reference is '
                'judged like any other), floating = complement of fixed (same spec expectation for both spellings), gauge: an object and its copy with a '
                'rigid time-dependent translation, corrected with the same reference, have identical corrected steps. '
                'Non-trivial = judged Drift/ApplyDrift event.')
    rep.assumptions = ['per-step displacements below a quarter cell (so corrected steps stay minimum-image; pymatgen documents the assumption)',
                       'inputs on the /16 grid and <= 4 reference atoms so that means stay on the /192 grid (thirds are exact to 1 ulp; alpha tolerance 1e-6)',
                       'a corrected object is corrected again only with the same reference set (other sets leave the grid)']
    r = core.model_check('MC_Trajectory', c15.mc_cfg(4 if quick else 6, 3, ['AbsStable', 'DriftZero', 'DriftKeepsFirstFrame']),
                         workers=8, timeout=2400)
    rep.add_model('MC_Trajectory (DriftZero, DriftKeepsFirstFrame, AbsStable)', r)
    c15.leg_b(rep, 60 if quick else 1000, 20, ACTS, judged=JUDGED, seed_off=13, max_step=2)
    rep.exhaustive = True
