"""C20 -- memoised analysis results are transparent and never leak between objects."""
import numpy as np

from .. import core, memo_drive


def mc_cfg(mode, pin, max_oid=4, addrs='{1, 2}', maxsize=2):
    return '\n'.join(['SPECIFICATION Spec', f'CONSTANTS Addrs = {addrs}', f' MaxOid = {max_oid}', ' ArgsSet = {1, 2}',
                      f' MaxSize = {maxsize}', f' KeyMode = "{mode}"', f' PinningValue = {"TRUE" if pin else "FALSE"}',
                      'INVARIANT Transparent', 'INVARIANT NoCrossTalk', 'INVARIANT NoPin', 'CHECK_DEADLOCK FALSE', ''])


def run(rep):
    quick = rep.tier == 'quick'
    core.gemdat_src_first()
    rep.rule = ('Leg M: weak-LRU memoisation with object creation at addresses of a small pool (address reuse), calls with 2 arguments, drop, '
                'collection, LRU eviction: Transparent, NoCrossTalk, NoPin over all interleavings; three negative controls must be refuted '
                '(key on id(self): stale value after address reuse; strong key: leak; cached value referencing its owner: leak). '
                'Leg B: seeded lifecycles recorded from (i) a probe class decorated with the real weak_lru_cache (small objects, CPython '
                'reuses addresses), (ii) real Transitions / Jumps / TrajectoryMetrics objects from distinct histories in 6 cell families, '
                '(iii) > 128 live owners (eviction); every call logs the tag of the returned value and of method.__wrapped__(obj, ...), '
                'collection is observed with weakref.finalize after gc.collect(); TraceMemo judges each event. '
                'Non-trivial = Call or Collect event; address reuse is counted.')
    rep.assumptions = ['whether a call hit the cache is not observable and not constrained', 'returned values are not kept by the driver',
                       'an object may stay alive while a held object references it (Jumps -> Transitions): parent links are logged']
    for (moid, addrs, ms) in ([(4, '{1, 2}', 2)] if quick else [(5, '{1, 2}', 2), (4, '{1, 2, 3}', 2), (4, '{1, 2}', 1)]):
        r = core.model_check('MemoCache', mc_cfg('weakref', False, moid, addrs, ms), workers=8, timeout=2400)
        rep.add_model(f'MemoCache KeyMode=weakref MaxOid={moid} Addrs={addrs} MaxSize={ms}', r)
    for mode, pin, inv in (('id', False, 'Transparent'), ('strong', False, 'NoPin'), ('weakref', True, 'NoPin')):
        r = core.model_check('MemoCache', mc_cfg(mode, pin), workers=4, expect_violation=inv)
        rep.add_model(f'MemoCache KeyMode={mode} PinningValue={pin} (negative control)', r, negative_control=True)
    rng = np.random.default_rng(rep.seed + 20)
    drivers = []
    b = 0
    for _ in range(40 if quick else 600):
        drivers.append(memo_drive.probe_behaviour(b, rng))
        b += 1
    for _ in range(8 if quick else 120):
        drivers.append(memo_drive.real_behaviour(b, rng))
        b += 1
    for _ in range(2 if quick else 10):
        drivers.append(memo_drive.crowd_behaviour(b, rng))
        b += 1
    recs = [r for d in drivers for r in d.recs]
    verdicts = core.validate_traces('TraceMemo', recs, timeout=2400)
    rep.add_trace_stats()
    bad_b = set()
    for rec, (v, act) in zip(recs, verdicts):
        if rec['act'] in ('Call', 'Collect'):
            rep.evaluations += 1
            rep.nontrivial += 1
        if v != 'ok' and rec['b'] not in bad_b:
            bad_b.add(rec['b'])
            rep.violation({'kind': 'leg-B', 'clause': v, 'event': rec,
                           'prefix': [q for q in recs if q['b'] == rec['b']][:60]})
    rep.traces += len(drivers)
    reuse = sum(d.addr_reuse for d in drivers)
    rep.extra['leg_B'] = {'behaviours': len(drivers), 'events': len(recs), 'address_reuse_events': reuse,
                          'behaviours_with_address_reuse': sum(1 for d in drivers if d.addr_reuse)}
    rep.sample({'leg': 'B', 'events': drivers[0].recs[:10]})
    rep.sample({'leg': 'B-real', 'events': drivers[40 if quick else 600].recs[:8]})
    if reuse == 0:
        raise core.Machinery('no address reuse observed: the stale-hit scenario was not exercised')
    rep.exhaustive = True
