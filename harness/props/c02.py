"""C02 -- site assignment follows the true minimum-image distance for every cell and radius."""
import numpy as np

from .. import assign_drive as ad
from .. import core, gen

MODES = ['float', 'dict', 'dict-unvisited']
ORIENTS = ['chol', 'pmg', 'rot']


def mc_cfg(N, fam):
    return '\n'.join(['SPECIFICATION Spec', f'CONSTANTS N = {N}', f' Fam = {fam}', ' MaxThr = 12', 'INVARIANT UniqueUnderNonOverlap',
                      'INVARIANT InnerIsOuterOrNone', 'INVARIANT TranslationInvariant', 'CHECK_DEADLOCK FALSE', ''])


def collect(rep, rng, n_cases, n_auto):
    recs = []
    fams = list(gen.FAMILIES)
    b = 0
    while len(recs) < n_cases:
        fam = fams[b % len(fams)]
        orient = ORIENTS[(b // len(fams)) % 3]
        mode = MODES[(b // (3 * len(fams))) % 3]
        b += 1
        rec, traj, structure, kw = ad.make_case(rng, b, fam, orient, mode)
        try:
            rec, _ = ad.run_case(rec, traj, structure, kw)
        except ValueError as e:
            if 'need at least one array' in str(e):
                rep.extra['skipped_no_change'] = rep.extra.get('skipped_no_change', 0) + 1
                continue
            raise
        recs.append(rec)
    n = 0
    tries = 0
    while n < n_auto and tries < 20 * n_auto:
        tries += 1
        fam = fams[tries % len(fams)]
        rec = ad.make_auto_case(rng, 100000 + tries, fam, ORIENTS[tries % 3], close=(tries % 4 == 0))
        if rec is None:
            rep.extra['rejected_by_margin'] = rep.extra.get('rejected_by_margin', 0) + 1
            continue
        recs.append(rec)
        n += 1
    return recs


def judge(rep, recs, prop='C02'):
    metas = [r.pop('meta') for r in recs]
    verdicts = core.validate_traces('TraceAssign', recs, timeout=1800)
    rep.add_trace_stats()
    seen = set()
    for rec, meta, (v, _) in zip(recs, metas, verdicts):
        rep.evaluations += 1
        flat = [x for row in rec.get('hist', []) for x in row]
        if any(x[0] != -1 for x in flat) and any(x[0] == -1 or x[1] == -1 for x in flat):
            key = (meta['family'], meta['orientation'], meta['mode'])
            rep.nontrivial += 1
            seen.add(key)
        if v != 'ok':
            rep.violation({'kind': 'leg-B', 'clause': v, 'meta': meta, 'record': rec})
        elif rec['b'] % 37 == 0:
            rep.sample({'leg': 'B', 'meta': meta, 'sites': rec['sites'], 'thr': rec['thr'], 'pos0': rec['pos'][0],
                        'observed0': rec['hist'][0] if rec.get('hist') else None})
    rep.traces += len(recs)
    rep.extra['family_orientation_mode_combinations'] = len(seen)


def run(rep):
    quick = rep.tier == 'quick'
    core.gemdat_src_first()
    rep.rule = ('Leg M: on a small grid (N=4) every second-site position and every admissible threshold: the assignment is unique when '
                'spheres do not overlap, inner site is the outer site or none, assignment commutes with grid translations. '
                'Leg B: atoms and sites on a /64 grid in 6 cell families (cubic..strongly triclinic) x 3 orientations (MDAnalysis-style '
                'lower-triangular, pymatgen from_parameters, random rotation) x radius modes (float, per-label dict, dict with '
                'never-visited group members, automatic), inner fractions {1,.75,.5,.25}, raw coordinates shifted by lattice vectors; '
                '.states/.inner_states judged by TLC with exact integer minimum-image distances from the metric tensor. '
                'Non-trivial = case with at least one atom at a site and one not (or outer-only).')
    rep.assumptions = ['r^2 N^2 is kept >= 0.05 (explicit radii: exactly 0.5) away from integers, so every atom is >= 1e-4 relative from a sphere surface',
                       'explicit radii satisfy 2r < smallest site separation (unique assignment); radius < 0.45 x smallest perpendicular cell width',
                       'automatic radius: expected r computed from the public TrajectoryMetrics.vibration_amplitude() and the exact site separation']
    for fam in (0,) if quick else (0, 1, 2):
        r = core.model_check('MC_Assign', mc_cfg(4, fam), workers=16, timeout=2400)
        rep.add_model(f'MC_Assign N=4 Fam={fam}', r)
    rng = np.random.default_rng(rep.seed + 2)
    recs = collect(rep, rng, 162 if quick else 1620, 24 if quick else 300)
    judge(rep, recs)
