"""C02 -- site assignment follows the true minimum-image distance for every cell and radius."""
import numpy as np

from .. import assign_drive as ad
from .. import core, gen

MODES = ['float', 'dict', 'dict-unvisited']
ORIENTS = ['chol', 'pmg', 'rot']


def mc_cfg(N, fam):
    return '\n'.join(['SPECIFICATION Spec', f'CONSTANTS N = {N}', f' Fam = {fam}', ' MaxThr = 12', 'INVARIANT UniqueUnderNonOverlap',
                      'INVARIANT InnerIsOuterOrNone', 'INVARIANT TranslationInvariant', 'CHECK_DEADLOCK FALSE', ''])


def collect(rep, rng, n_cases, n_auto):
    recs = []
    fams = list(gen.FAMILIES)
    b = 0
    while len(recs) < n_cases:
        fam = fams[b % len(fams)]
        orient = ORIENTS[(b // len(fams)) % 3]
        mode = MODES[(b // (3 * len(fams))) % 3]
        b += 1
        rec, traj, structure, kw = ad.make_case(rng, b, fam, orient, mode)
        try:
            rec, _ = ad.run_case(rec, traj, structure, kw, rng=rng)
        except ValueError as e:
            if 'need at least one array' in str(e):
                rep.extra['skipped_no_change'] = rep.extra.get('skipped_no_change', 0) + 1
                continue
            raise
        recs.append(rec)
    n = 0
    tries = 0
    while n < n_auto and tries < 20 * n_auto:
        tries += 1
        fam = fams[tries % len(fams)]
        rec = ad.make_auto_case(rng, 100000 + tries, fam, ORIENTS[tries % 3], close=(tries % 4 == 0))
        if rec is None:
            rep.extra['rejected_by_margin'] = rep.extra.get('rejected_by_margin', 0) + 1
            continue
        recs.append(rec)
        n += 1
    return recs


def judge(rep, recs, prop='C02'):
    metas = [r.pop('meta') for r in recs]
    verdicts = core.validate_traces('TraceAssign', recs, timeout=1800)
    rep.add_trace_stats()
    seen = set()
    for rec, meta, (v, _) in zip(recs, metas, verdicts):
        rep.evaluations += 1
        flat = [x for row in rec.get('hist', []) for x in row]
        if any(x[0] != -1 for x in flat) and any(x[0] == -1 or x[1] == -1 for x in flat):
            key = (meta['family'], meta['orientation'], meta['mode'])
            rep.nontrivial += 1
            seen.add(key)
        if v != 'ok':
            rep.violation({'kind': 'leg-B', 'clause': v, 'meta': meta, 'record': rec})
        elif rec['b'] % 37 == 0:
            rep.sample({'leg': 'B', 'meta': meta, 'sites': rec['sites'], 'thr': rec['thr'], 'pos0': rec['pos'][0],
                        'observed0': rec['hist'][0] if rec.get('hist') else None})
    rep.traces += len(recs)
    rep.extra['family_orientation_mode_combinations'] = len(seen)


def scale_cases(rep, rng, totals):
    """Site assignment is frame-local: a long trajectory made by repeating the frames of a small, TLC-validated case must get the
    repeated states.  Sizes are chosen above typical block sizes (2^18, 2^19, 1e6 points) and odd."""
    from gemdat import Trajectory
    for total in totals:
        for _ in range(20):
            rec, traj, structure, kw = ad.make_case(rng, 900000 + total, 'tric', 'rot', 'float')
            A = len(rec['pos'][0])
            if A % 2 == 1:
                break
        try:
            rec, tr = ad.run_case(rec, traj, structure, kw)
        except ValueError:
            continue
        meta = rec.pop('meta')
        (v, _), = core.validate_traces('TraceAssign', [rec], timeout=600)
        rep.add_trace_stats()
        rep.evaluations += 1
        if v != 'ok':
            rep.violation({'kind': 'leg-B', 'clause': v, 'meta': meta, 'record': rec})
            continue
        small_states, small_inner = np.asarray(tr.states), np.asarray(tr.inner_states)
        T0 = len(small_states)
        Tbig = total // A + (1 - (total // A) % 2)               # odd number of frames, A odd -> odd number of points
        reps = -(-Tbig // T0)
        coords = np.tile(np.asarray(traj.positions), (reps, 1, 1))[:Tbig]
        big = Trajectory(species=traj.species, coords=coords, lattice=traj.get_lattice(), time_step=traj.time_step, metadata=dict(traj.metadata))
        trb = big.transitions_between_sites(structure, 'Li', **kw)
        exp_s = np.tile(small_states, (reps, 1))[:Tbig]
        exp_i = np.tile(small_inner, (reps, 1))[:Tbig]
        rep.evaluations += 1
        rep.nontrivial += 1
        if not (np.array_equal(np.asarray(trb.states), exp_s) and np.array_equal(np.asarray(trb.inner_states), exp_i)):
            wrong = int((np.asarray(trb.states) != exp_s).sum())
            rep.violation({'kind': 'scale', 'clause': 'long-trajectory-states-differ-from-frame-by-frame-assignment', 'points': int(Tbig * A),
                           'frames': int(Tbig), 'atoms': A, 'wrong_entries': wrong, 'meta': meta})
        rep.extra.setdefault('scale_cases', []).append({'points': int(Tbig * A), 'frames': int(Tbig), 'atoms': A})


def run(rep):
    quick = rep.tier == 'quick'
    core.gemdat_src_first()
    rep.rule = ('Leg M: on a small grid (N=4) every second-site position and every admissible threshold: the assignment is unique when '
                'spheres do not overlap, inner site is the outer site or none, assignment commutes with grid translations. '
                'Leg B: atoms and sites on a /64 grid in 6 cell families (cubic..strongly triclinic) x 3 orientations (MDAnalysis-style '
                'lower-triangular, pymatgen from_parameters, random rotation) x radius modes (float, per-label dict, dict with '
                'never-visited group members, automatic), inner fractions {1,.75,.5,.25}, raw coordinates shifted by lattice vectors; '
                '.states/.inner_states judged by TLC with exact integer minimum-image distances from the metric tensor. '
                'Scale: a TLC-validated small case repeated to more than 2^18 (thorough: 2^19, 1e6) points with an odd point count must give the '
                'repeated states (assignment is frame-local). Non-trivial = case with at least one atom at a site and one not (or outer-only).')
    rep.assumptions = ['r^2 N^2 is kept >= 0.05 (explicit radii: exactly 0.5) away from integers, so every atom is >= 1e-4 relative from a sphere surface',
                       'explicit radii satisfy 2r < smallest site separation (unique assignment); radius < 0.45 x smallest perpendicular cell width',
                       'automatic radius: expected r computed from the public TrajectoryMetrics.vibration_amplitude() and the exact site separation']
    for fam in (0,) if quick else (0, 1, 2):
        r = core.model_check('MC_Assign', mc_cfg(4, fam), workers=16, timeout=2400)
        rep.add_model(f'MC_Assign N=4 Fam={fam}', r)
    rng = np.random.default_rng(rep.seed + 2)
    recs = collect(rep, rng, 162 if quick else 1620, 24 if quick else 300)
    judge(rep, recs)
    scale_cases(rep, rng, [2 ** 18 + 19] if quick else [2 ** 18 + 19, 2 ** 19 + 77, 10 ** 6 + 1])
