"""C03 -- transition events are a faithful, complete change-log of the site states."""
from .. import sites_checks as sc


def run(rep):
    quick = rep.tier == 'quick'
    rep.rule = ('Leg M: every history (5 per-frame states per atom for S=2) up to length T enumerated by TLC, '
                'EvTimes (np.roll transcription) = Changes, Replay(rows) = history, ffill/bfill = prev/next site. '
                'Leg A: every exported single-atom history of length 2..T realised as coordinates and pushed through '
                'transitions_between_sites; .events/.states_prev/.states_next compared with the spec rows. '
                'Leg B: seeded random multi-atom histories through the public API, each call a trace record judged by '
                'TraceSites. Non-trivial = history with at least one change / record with non-empty table.')
    rep.assumptions = ['histories realised in cells of 6 families x 3 orientations; site spheres separated by > 0.6 A margins',
                       'a history without any change raises in the event builder (outside the property\'s domain): skipped']
    sc.leg_m(rep, 'C03', [(5, 2, 1, 0), (3, 2, 2, 0), (5, 2, 1, 0, 'mixed')] if quick else [(7, 2, 1, 0), (5, 3, 1, 0), (4, 2, 2, 0), (6, 2, 1, 0, 'mixed'), (4, 3, 1, 0, 'mixed')])
    sc.leg_a(rep, 'C03', 5 if quick else 7, 2, 0)
    if not quick:
        sc.leg_a(rep, 'C03', 5, 3, 0)
    sc.leg_b(rep, 'C03', 30 if quick else 400, 40 if quick else 60, 3 if quick else 4, 4 if quick else 5,
             list(__import__('harness.gen', fromlist=['x']).FAMILIES), ms=(), ks=())
    sc.overlap_cases(rep, 'C03', 12 if quick else 150, ms=())
    sc.narrow_dtype_cases(rep, 4 if quick else 12, 180 if quick else 600)
    sc.scale_by_tiling(rep, 33200 if quick else 70000, ms=())
    sc.many_sites(rep, 11 if quick else 13, ms=(), want=('Hist', 'Events', 'Prev', 'Next'))
    rep.exhaustive = True
