"""C14 -- derived metrics obey their formulas and physical scaling laws."""
import math

import numpy as np
from scipy.constants import Avogadro, Boltzmann, angstrom, elementary_charge

from .. import core, gen
from .. import metrics_drive as md
from .c06 import mc_cfg


def run(rep):
    quick = rep.tier == 'quick'
    core.gemdat_src_first()
    from pymatgen.core import Element, Lattice
    from gemdat import Trajectory, TrajectoryMetrics
    from gemdat.metrics import TrajectoryMetricsStd
    rep.rule = ('Leg M: MC_Metrics on every speed series up to MaxLen: the amplitude segmentation (transcription of amplitudes(): sign flips via '
                'np.roll, first and last split stripped, np.array_split) is a partition, amplitudes add up to the final distance, scale with K; '
                'identical motion gives Haven ratio one for any masses; numerators scale with K^2, volume^2 with K^6. '
                'Spec as oracle: TraceMetrics prints TracerNum, ComNum (integer weights), Det G, per-part TracerNum and the amplitude list of 1-D '
                'speed series; particle_density, mol_per_liter, tracer_conductivity(z,d), tracer_diffusivity_center_of_mass, haven_ratio, '
                'amplitudes(), vibration_amplitude(), TrajectoryMetricsStd are compared after alpha (CODATA constants from scipy, masses from '
                'pymatgen). Scaling laws (cell x k in {2,3,1/2}, dt x s) are metamorphic pairs judged against the exponent table '
                '<k^2, k, k^-3, 1, 1/s>; for attempt frequency and vibration amplitude only the exponent is checked. '
                'Non-trivial = case with a non-zero final displacement.')
    rep.assumptions = ['attempt frequency / vibration amplitude VALUES (periodogram; std of sums of irrational speeds in 3-D) are not specified: only scaling, '
                       'partition and, for 1-D walks along a cubic axis, the exact amplitude list',
                       'mass weighting is checked with one moving species and static others (integer weights 1/0 for TLC, the mass ratio removed by alpha)']
    r = core.model_check('MC_Metrics', mc_cfg(5 if quick else 7, ['AmpPartition', 'AmpSum', 'AmpScale', 'HavenOne', 'ScaleLaw']),
                         workers=8, timeout=2400)
    rep.add_model('MC_Metrics (AmpPartition, AmpSum, AmpScale, HavenOne, ScaleLaw)', r)
    rng = np.random.default_rng(rep.seed + 14)
    fams = list(gen.FAMILIES)
    n = 72 if quick else 1200
    recs, cases = [], []
    for b in range(n):
        kind = ['generic', 'identical', 'mass', 'onedim', 'parts'][b % 5]
        fam = 'cubic' if kind == 'onedim' else fams[b % len(fams)]
        orient = 'chol' if kind == 'onedim' else ['chol', 'pmg', 'rot'][b % 3]
        T, A = int(rng.integers(4, 25)), int(rng.integers(1, 5))
        species = ['Li'] * A
        m = [1] * A
        if kind == 'identical':
            A = max(A, 2)
            species, m = ['Li'] * A, [1] * A
            w = md.make_walk(rng, T, A, identical=True)
        elif kind == 'mass':
            A = max(A, 2)
            nx = int(rng.integers(1, A))
            # incl. isotopes: pymatgen gives D and T the element symbol 'H' but their own mass -- the weight is the mass of the atom
            mv, st = [('Li', 'S'), ('Li', 'Mg'), ('D', 'T'), ('H', 'D'), ('T', 'H'), ('D', 'O'), ('O', 'T')][int(rng.integers(0, 7))]
            species = [mv] * nx + [st] * (A - nx)
            m = [1] * nx + [0] * (A - nx)
            w = md.make_walk(rng, T, A, identical=True, static_from=nx)
            if rng.random() < 0.5:                  # which species comes first in the atom order varies
                species, m, w = species[::-1], m[::-1], np.ascontiguousarray(w[:, ::-1, :])
        elif kind == 'onedim':
            w = md.make_walk(rng, T, A, onedim=True)
        else:
            w = md.make_walk(rng, T, A)
        if kind == 'parts':
            T = max(T, 9)
            w = md.make_walk(rng, T, A)
        traj, G = md.build(rng, fam, orient, w, species, dt_fs=int(rng.integers(1, 4)), temp=int(rng.integers(100, 1200)))
        speeds = []
        if kind == 'onedim':
            for a in range(A):
                d = np.abs(w[:, a, 0])
                speeds.append([int(x) for x in np.diff(d, prepend=0)])
        parts, pr = [], None
        if kind == 'parts':
            k = int(rng.integers(2, 4))
            plist = traj.split(k, equal_parts=True)
            pr = md.part_ranges(traj, plist)
            if pr is None:
                raise core.Machinery('cannot locate split parts')
            parts = [(w[s:e] - w[s]).tolist() for s, e in pr]
        recs.append({'b': b, 'G': G, 'w': w.tolist(), 'm': m, 'speeds': speeds, 'parts': parts, 'want': {'msd': False}})
        cases.append((kind, traj, w, species, m, fam, pr))
    exp = core.run_oracle('TraceMetrics', recs, timeout=2400)
    rep.add_trace_stats()
    for b, ((kind, traj, w, species, m, fam, pr), e) in enumerate(zip(cases, exp)):
        T, A, _ = w.shape
        rep.evaluations += 1
        if np.abs(w[-1]).max() > 0:
            rep.nontrivial += 1
        gen.perturb(traj, rng)
        tm = TrajectoryMetrics(traj)
        if b % 2:
            # the order in which the (memoised) metrics are asked for must not matter
            tm.vibration_amplitude(), tm.attempt_frequency(), tm.speed()
        temp = traj.metadata['temperature']
        total_time = T * traj.time_step
        vol = math.sqrt(e['det'])
        bad = []
        pd = float(tm.particle_density())
        if not md.close((A / (pd * angstrom ** 3)) ** 2, e['det'], rel=1e-9):
            bad.append(('particle-density', pd, A / (vol * angstrom ** 3)))
        mpl = float(tm.mol_per_liter())
        if not md.close((A / (mpl * Avogadro / 1e-3 * angstrom ** 3)) ** 2, e['det'], rel=1e-9):
            bad.append(('mol-per-liter', mpl))
        d = int(rng.integers(1, 4))
        z = int(rng.integers(1, 4))
        pd_exact = A / (vol * angstrom ** 3)
        unit = angstrom ** 2 / (2 * d * total_time) / md.N ** 2          # diffusivity per unit numerator
        sigma = float(tm.tracer_conductivity(z_ion=z, dimensions=d))
        Dsig = sigma * Boltzmann * temp / (elementary_charge ** 2 * z ** 2 * pd_exact)
        if not md.close(Dsig / unit * A, e['tracer'], rel=1e-9):
            bad.append(('tracer-conductivity', sigma, z, d, e['tracer']))
        Dcom = float(tm.tracer_diffusivity_center_of_mass(dimensions=d))
        masses = [float(Element(s).atomic_mass) for s in species]
        if kind == 'mass':
            nx = sum(m)
            corr = (sum(masses) / (masses[m.index(1)])) ** 2          # alpha removes the mass ratio: COM walk = (m_X n_X / M) w_X
            if not md.close(Dcom / unit * corr, e['com'], rel=1e-9):
                bad.append(('centre-of-mass-diffusivity-mass-weighting', Dcom, e['com'], nx))
        else:
            if not md.close(Dcom / unit * e['mass'] ** 2, e['com'], rel=1e-9):
                bad.append(('centre-of-mass-diffusivity', Dcom, e['com']))
            if e['com'] > 0:
                hv = float(tm.haven_ratio(dimensions=d))
                exp_h = (e['tracer'] / A) * e['mass'] ** 2 / e['com']
                if not md.close(hv, exp_h, rel=1e-9, abs_=1e-12):
                    bad.append(('haven-ratio', hv, exp_h))
                if kind == 'identical' and not md.close(hv, 1.0, rel=1e-9, abs_=1e-12):
                    bad.append(('haven-ratio-identical-motion-not-one', hv))
        amps = np.asarray(tm.amplitudes())
        dist = traj.distances_from_base_position()
        if not md.close(float(amps.sum()), float(dist[:, -1].sum()), rel=1e-9, abs_=1e-9):
            bad.append(('amplitudes-do-not-sum-to-final-distance', float(amps.sum()), float(dist[:, -1].sum())))
        if kind == 'onedim':
            a_len = math.sqrt(gen.FAMILIES[fam][0][0])
            flat = [x for row in e['amps'] for x in row]
            got = amps * md.N / a_len
            if len(flat) != len(got) or any(not md.close(float(g), x, rel=1e-9) for g, x in zip(got, flat)):
                bad.append(('amplitude-list', [float(x) for x in got][:12], flat[:12]))
            else:
                va = float(tm.vibration_amplitude())
                if not md.close(va, float(np.std(np.array(flat) * a_len / md.N)), rel=1e-9, abs_=1e-12):
                    bad.append(('vibration-amplitude', va))
        if kind == 'parts':
            plist = traj.split(len(pr), equal_parts=True)
            std = TrajectoryMetricsStd(plist)
            u = std.tracer_diffusivity(dimensions=d)
            vals = [num * angstrom ** 2 / (2 * d * ((pe - ps) * traj.time_step)) / md.N ** 2 / A for num, (ps, pe) in zip(e['parts'], pr)]
            if not md.close(u.n, float(np.mean(vals)), rel=1e-9, abs_=1e-30) or not md.close(u.s, float(np.std(vals)), rel=1e-7, abs_=1e-30):
                bad.append(('metrics-std-tracer-diffusivity', u.n, u.s, float(np.mean(vals)), float(np.std(vals))))
            # vibration amplitude: mean / std over the parts of the per-part values of the same code path
            uv = std.vibration_amplitude()
            vv = [float(TrajectoryMetrics(pt).vibration_amplitude()) for pt in plist]
            if all(math.isfinite(x) for x in vv) and (not md.close(uv.n, float(np.mean(vv)), rel=1e-9, abs_=1e-12)
                                                      or not md.close(uv.s, float(np.std(vv)), rel=1e-7, abs_=1e-12)):
                bad.append(('metrics-std-vibration-amplitude', uv.n, uv.s, float(np.mean(vv)), float(np.std(vv))))
            uc = std.tracer_conductivity(z_ion=z, dimensions=d)
            cvals = [v * elementary_charge ** 2 * z ** 2 * pd_exact / (Boltzmann * temp) for v in vals]
            if not md.close(uc.n, float(np.mean(cvals)), rel=1e-9, abs_=1e-30) or not md.close(uc.s, float(np.std(cvals)), rel=1e-7, abs_=1e-30):
                bad.append(('metrics-std-tracer-conductivity', uc.n, uc.s))
        # scaling laws (metamorphic, exponent table)
        if b % 3 == 0 and T >= 6:
            k = float(rng.choice([2.0, 3.0, 0.5]))
            s = float(rng.choice([2.0, 0.25, 5.0]))
            t2 = Trajectory(species=traj.species, coords=np.array(traj.positions), lattice=Lattice(np.array(traj.get_lattice().matrix) * k),
                            time_step=traj.time_step, metadata=dict(traj.metadata))
            t3 = Trajectory(species=traj.species, coords=np.array(traj.positions), lattice=traj.get_lattice(),
                            time_step=traj.time_step * s, metadata=dict(traj.metadata))
            if b % 2:
                # the same through the convenience entry point Trajectory.metrics(), on ONE object whose time step (a plain attribute)
                # is changed in place between the two questions: the answer is that of the trajectory as it is now
                t3 = Trajectory(species=traj.species, coords=np.array(traj.positions), lattice=traj.get_lattice(),
                                time_step=traj.time_step, metadata=dict(traj.metadata))
                m1 = t3.metrics()
                t3_pending = True
            else:
                t3_pending = False
            m1, m2, m3 = (m1 if b % 2 else TrajectoryMetrics(traj)), t2.metrics() if b % 2 else TrajectoryMetrics(t2), None if b % 2 else TrajectoryMetrics(t3)
            amp_scale = float(np.mean(np.abs(np.asarray(m1.amplitudes())))) if len(np.asarray(m1.amplitudes())) else 0.0

            def ratio(f, mm, floor=0.0):
                a0, a1 = base_of(f), float(f(mm))
                # a quantity that is zero up to rounding noise (e.g. the spread of identical amplitudes) has no meaningful ratio
                if not math.isfinite(a0) or abs(a0) <= max(floor, 1e-300):
                    return None
                return a1 / a0
            cache0 = {}

            def base_of(f):
                if id(f) not in cache0:
                    cache0[id(f)] = float(f(m1))
                return cache0[id(f)]
            table = [('tracer-diffusivity', lambda x: x.tracer_diffusivity(dimensions=3), k ** 2, 1 / s),
                     ('com-diffusivity', lambda x: x.tracer_diffusivity_center_of_mass(dimensions=3), k ** 2, 1 / s),
                     ('vibration-amplitude', lambda x: x.vibration_amplitude(), k, 1.0),
                     ('particle-density', lambda x: x.particle_density(), k ** -3, 1.0),
                     ('attempt-frequency', lambda x: x.attempt_frequency()[0], 1.0, 1 / s)]
            if t3_pending:
                for name, f, ek, es in table:
                    base_of(f)                      # asked on the object before its time step changes
                t3.time_step = t3.time_step * s
                m3 = t3.metrics()
            for name, f, ek, es in table:
                floor = 1e-9 * amp_scale if name == 'vibration-amplitude' else 0.0
                rk, rs = ratio(f, m2, floor), ratio(f, m3, floor)
                if rk is not None and not md.close(rk, ek, rel=1e-8, abs_=1e-12):
                    bad.append((f'scaling-cell-{name}', rk, ek, k))
                if rs is not None and not md.close(rs, es, rel=1e-8, abs_=1e-12):
                    bad.append((f'scaling-time-{name}', rs, es, s))
        if bad:
            rep.violation({'kind': 'oracle', 'clause': bad[0][0], 'detail': [list(map(str, x)) for x in bad], 'case': kind, 'family': fam,
                           'species': species, 'walk': w.tolist()})
        elif b % 20 == 0:
            rep.sample({'case': kind, 'family': fam, 'T': T, 'A': A, 'expected': {k2: e[k2] for k2 in ('tracer', 'com', 'mass', 'det')},
                        'amps': e['amps'][:1]})
    rep.traces += n
