"""C18 -- orientation vectors are minimum-image bonds; transforms / autocorrelation exact."""
import itertools
import math

import numpy as np

from .. import core, gen

N = 32
POINT_GROUPS = ['1', '-1', '2', 'm', '2/m', '222', 'mm2', 'mmm', '4', '-4', '4/m', '422', '4mm', '-42m', '4/mmm', '23', 'm-3', '432',
                '-43m', 'm-3m']
# bond vectors with integer norm 3 (Pythagorean quadruple (1,2,2)), all signs and permutations
QUAD = sorted({tuple(s * v for s, v in zip(sg, p)) for p in itertools.permutations((1, 2, 2)) for sg in itertools.product((1, -1), repeat=3)})
CUBE_ROTS = []
for perm in itertools.permutations(range(3)):
    for sg in itertools.product((1, -1), repeat=3):
        Mx = np.zeros((3, 3), dtype=int)
        for i in range(3):
            Mx[i, perm[i]] = sg[i]
        if round(np.linalg.det(Mx)) == 1:
            CUBE_ROTS.append(Mx)


def mc_cfg(K, T):
    return '\n'.join(['SPECIFICATION Spec', f'CONSTANTS K = {K}', f' T = {T}', 'INVARIANT AllOrthogonal', 'INVARIANT OnePerOp',
                      'INVARIANT OrbitClosed', 'INVARIANT TransposeSame', 'INVARIANT AcfInvariant', 'CHECK_DEADLOCK FALSE', ''])


def make_case(rng, b, cartesian):
    """Returns (record for the oracle, trajectory, extras)."""
    from pymatgen.core import Lattice, Species
    from pymatgen.symmetry.groups import PointGroup
    from gemdat import Trajectory
    scale_vec, unit = [1, 1, 1], 16.0 / N
    if cartesian and (b // 2) % 2 == 0:
        fam, orient = 'cubic16', 'int'
        G = [[256, 0, 0], [0, 256, 0], [0, 0, 256]]          # a = 16 A, integer lattice matrix: Cartesian = k * a / N = k / 2
        M = np.diag([16.0, 16.0, 16.0])
    elif cartesian:
        # a cell that is NOT cubic, still with integer Cartesian coordinates: a = (16, 24, 16) A, Cartesian = (2 k1, 3 k2, 2 k3) / 4.
        # Point-group operations are Cartesian matrices: what the cell looks like has no bearing on the images.
        fam, orient = 'tetra16x24', 'int'
        G = [[256, 0, 0], [0, 576, 0], [0, 0, 256]]
        M = np.diag([16.0, 24.0, 16.0])
        scale_vec, unit = [2, 3, 2], 0.25
    else:
        fam = list(gen.FAMILIES)[b % len(gen.FAMILIES)]
        orient = ['chol', 'pmg', 'rot'][b % 3]
        G = gen.FAMILIES[fam]
        M = gen.lattice_matrix(G, orient, rng)
    R = gen.image_range(G)
    nc = int(rng.integers(1, 4))
    T = int(rng.integers(2, 13))
    for _ in range(200):
        centres0 = []
        tries = 0
        while len(centres0) < nc and tries < 200:
            tries += 1
            p = [int(x) for x in rng.integers(0, N, size=3)]
            if all(gen.min_image_sq(G, [p[i] - q[i] for i in range(3)], N, R) >= (14 ** 2) * min(G[0][0], G[1][1], G[2][2]) // 4 for q in centres0):
                centres0.append(p)
        if len(centres0) < nc:
            continue
        offs = [[QUAD[i] for i in rng.choice(len(QUAD), size=4, replace=False)] for _ in range(nc)]
        q_all = [gen.norm_sq(G, o) for cl in offs for o in cl]
        if 4 * max(q_all) < 9 * min(q_all) * 0.98:
            break
    else:
        return None
    cen = np.zeros((T, nc, 3), dtype=int)
    sat = np.zeros((T, nc * 4, 3), dtype=int)
    cpos = np.array(centres0)
    cur = [np.array(cl) for cl in offs]
    for t in range(T):
        if t > 0:
            cpos = cpos + rng.integers(-1, 2, size=cpos.shape)
            for c in range(nc):
                if rng.random() < 0.6:
                    Rm = CUBE_ROTS[int(rng.integers(0, len(CUBE_ROTS)))]
                    cur[c] = cur[c] @ Rm.T
        cen[t] = np.mod(cpos, N)
        for c in range(nc):
            sat[t, 4 * c:4 * c + 4] = np.mod(cpos[c] + cur[c], N)
    # shuffle satellite order (fixed over time) so that matching is not positional
    perm = rng.permutation(nc * 4)
    sat = sat[:, perm, :]
    # check the matching margins at frame 0 with exact integers
    qs = [[gen.min_image_sq(G, [sat[0, s, i] - cen[0, c, i] for i in range(3)], N, R) for s in range(nc * 4)] for c in range(nc)]
    qmin = min(min(r_) for r_ in qs)
    for c in range(nc):
        near = [s for s in range(nc * 4) if 4 * qs[c][s] < 9 * qmin]
        if len(near) != 4 or any(abs(4 * qs[c][s] - 9 * qmin) < 0.02 * 9 * qmin for s in range(nc * 4)):
            return None
    # centre / satellite species and bystander species whose symbols are contained in (or contain) those names: atoms are
    # selected by EQUALITY of the element symbol.  Atoms of the three groups are interleaved, keeping the order within a group.
    ctype, stype, others = [('N', 'H', []), ('Na', 'He', ['N', 'H']), ('C', 'Cl', ['O']), ('Cl', 'C', []), ('Si', 'Br', ['S', 'B', 'I']),
                            ('N', 'H', ['He', 'Na', 'Ne'])][int(rng.integers(0, 6))]
    by = [str(x) for x in rng.choice(others, size=int(rng.integers(1, 4)))] if others else []
    bpos = np.mod(rng.integers(0, N, size=(1, len(by), 3)) + np.cumsum(rng.integers(-1, 2, size=(T, len(by), 3)), axis=0), N)
    groups = ['c'] * nc + ['s'] * (nc * 4) + ['b'] * len(by)
    rng.shuffle(groups)
    it = {'c': iter(range(nc)), 's': iter(range(nc * 4)), 'b': iter(range(len(by)))}
    species, cols = [], []
    for gname in groups:
        j = next(it[gname])
        species.append(Species({'c': ctype, 's': stype}.get(gname) or by[j]))
        cols.append({'c': cen, 's': sat, 'b': bpos}[gname][:, j, :])
    allpos = np.stack(cols, axis=1)
    coords = allpos / N + rng.integers(-1, 2, size=allpos.shape)
    traj = Trajectory(species=species, coords=coords, lattice=Lattice(M), time_step=1e-15)
    pg = POINT_GROUPS[b % len(POINT_GROUPS)]
    ops = [np.rint(o.rotation_matrix).astype(int) for o in PointGroup(pg).symmetry_ops]
    A = rng.integers(-3, 4, size=(3, 3))
    rec = {'b': b, 'G': G, 'N': N, 'R': R, 'cen': cen.tolist(), 'sat': sat.tolist(), 'cartesian': bool(cartesian), 'scale': scale_vec,
           'ops': [o.tolist() for o in ops], 'A': A.tolist()}
    return rec, traj, {'M': M, 'pg': pg, 'ops': ops, 'A': A, 'fam': fam, 'orient': orient, 'T': T, 'nc': nc, 'types': (ctype, stype), 'bystanders': by, 'unit': unit, 'scale_vec': scale_vec}


def deviant_acf(vectors):
    """Deviation D15 (known finding): power spectrum of the signal zero-padded to 2T-1 samples, inverted with length 2T-2."""
    T, nb, _ = vectors.shape
    out = np.zeros((nb, T))
    for c in range(3):
        f = np.fft.rfft(vectors[:, :, c], n=2 * T - 1, axis=0)
        r = np.fft.irfft(np.abs(f) ** 2, axis=0)          # default n = 2 (T - 1): the deviation
        out += r[:T].T / np.arange(T, 0, -1)
    return out / out[:, :1]


def bag(rows):
    d = {}
    for r_ in rows:
        d[tuple(r_)] = d.get(tuple(r_), 0) + 1
    return d


def run(rep):
    quick = rep.tier == 'quick'
    core.gemdat_src_first()
    from gemdat import Orientations
    rep.rule = ('Leg M: for the point group 4/m and every integer vector in {-K..K}^3: one image per operation, the multiset of images is the same along '
                'an orbit and for the transposed operations; autocorrelation numerators invariant under a global orthogonal operation. '
                'Spec as oracle: centre atoms with four satellites at Pythagorean-quadruple offsets (norm 3), rigid cube re-orientations between '
                'frames, centres drifting across faces, lattice-shifted raw coordinates, satellite order shuffled; TraceOrient prints matched pairs, '
                'minimum-image bond vectors and squared lengths (6 cell families x 3 orientations), and for an integer-matrix cubic cell the images '
                'under 20 triclinic..cubic point groups, A v for random integer 3x3 A, and autocorrelation numerators. Orientations.vectors '
                '(Cartesian -> fractional through M^-1), lengths, normalize(), symmetrize(sym_group / sym_ops), transform(), autocorrelation() are '
                'compared. Non-trivial = case with a bond crossing a cell face.')
    rep.assumptions = ['bond length well below half the cell width and exactly four satellites within 1.5 x the shortest bond (2 % margin)',
                       'vectors_spherical: judged by a float round trip in the harness (azimuth, elevation in degrees, length -> vector), not by TLC (arcsin / arctan2 have no integer image)',
                       'images compared per frame as a multiset; bond order compared up to a frame-independent permutation']
    r = core.model_check('MC_Orient', mc_cfg(1, 3) if quick else mc_cfg(2, 3), workers=8, timeout=2400)
    rep.add_model('MC_Orient point group 4/m', r)
    rng = np.random.default_rng(rep.seed + 18)
    n = 60 if quick else 1000
    recs, extra = [], []
    b = 0
    while len(recs) < n:
        b += 1
        c = make_case(rng, b, cartesian=(b % 2 == 0))
        if c is None:
            rep.extra['rejected_by_margin'] = rep.extra.get('rejected_by_margin', 0) + 1
            continue
        recs.append(c[0])
        extra.append(c[1:])
    exp = core.run_oracle('TraceOrient', recs, timeout=2400)
    rep.add_trace_stats()
    for rec, (traj, x), e in zip(recs, extra, exp):
        rep.evaluations += 1
        bad = []
        if not e['orth']:
            raise core.Machinery('point group operation not orthogonal')
        gen.perturb(traj, rng)
        o = Orientations(traj, x['types'][0], x['types'][1])
        vec = np.array(o.vectors, dtype=float, copy=True)
        T, nb = vec.shape[0], vec.shape[1]
        fr = vec @ np.linalg.inv(x['M']) * N
        k = np.rint(fr)
        if np.abs(fr - k).max() > 1e-6:
            bad.append(('vectors-off-grid',))
        k = k.astype(int)
        eb = np.array(e['bonds'])
        if np.abs(eb).max() >= N // 2 - 1:
            pass
        if any(np.abs(np.array(rec['sat'])[:, :, :].astype(int) - 0).max() >= 0 for _ in [0]) and np.any(np.abs(eb) > 0):
            cen = np.array(rec['cen'])
            if np.any(cen[1:] != cen[:-1]):
                rep.nontrivial += 1
        # bond trajectories as a multiset (order of bonds is not part of the property)
        got_b = bag([tuple(k[:, j, :].reshape(-1)) for j in range(nb)])
        exp_b = bag([tuple(eb[:, j, :].reshape(-1)) for j in range(eb.shape[1])])
        if got_b != exp_b:
            bad.append(('bond-vectors-not-minimum-image', k[0].tolist(), eb[0].tolist()))
        else:
            # align observed bond order with the spec's
            order = []
            used = set()
            for j in range(nb):
                key = tuple(k[:, j, :].reshape(-1))
                m = next(i for i in range(eb.shape[1]) if i not in used and tuple(eb[:, i, :].reshape(-1)) == key)
                used.add(m)
                order.append(m)
            lens = np.linalg.norm(vec, axis=-1) ** 2 * N * N
            el = np.array(e['lensq'])[:, order]
            if np.abs(lens - el).max() > 1e-6 * max(1.0, el.max()):
                bad.append(('bond-lengths',))
            # spherical representation (azimuth, elevation in degrees, length): the vector is recovered from it.  A float round trip --
            # trigonometry has no integer image, so this one clause is judged by the harness, not by TLC.
            sph = np.asarray(o.vectors_spherical, dtype=float)
            if sph.shape != vec.shape:
                bad.append(('spherical-shape', sph.shape))
            else:
                az_, el_, r_ = np.radians(sph[..., 0]), np.radians(sph[..., 1]), sph[..., 2]
                back = np.stack([r_ * np.cos(el_) * np.cos(az_), r_ * np.cos(el_) * np.sin(az_), r_ * np.sin(el_)], axis=-1)
                if not np.isfinite(back).all() or np.abs(back - vec).max() > 1e-9 * max(1.0, np.abs(vec).max()):
                    bad.append(('spherical-representation-does-not-recover-the-vector', float(np.nanmax(np.abs(back - vec)))))
            if not rec['cartesian']:
                # derived operations return new objects and leave the original untouched, in every cell
                o.normalize(), o.transform(np.eye(3) * 2.0), o.symmetrize(sym_group='-1'), o.autocorrelation(), o.vectors_spherical
                if not np.array_equal(np.asarray(o.vectors), vec):
                    bad.append(('vectors-changed-by-a-derived-operation',))
            if rec['cartesian']:
                scale = x['unit']                      # Angstrom per integer Cartesian unit
                sym = np.array(e['sym'])               # [T][nb*nops][3] in grid units, spec bond order
                nops = len(x['ops'])
                for mode in ('group', 'ops'):
                    if mode == 'group':
                        so = o.symmetrize(sym_group=x['pg'])
                    else:
                        so = o.symmetrize(sym_ops=np.array([m.astype(float) for m in x['ops']]).transpose(1, 2, 0))
                    sv = np.asarray(so.vectors) / scale
                    if sv.shape != (T, nb * nops, 3):
                        bad.append((f'symmetrize-{mode}-shape', sv.shape))
                        continue
                    for t in range(T):
                        if bag(np.rint(sv[t]).astype(int).tolist()) != bag(sym[t].tolist()) or np.abs(sv[t] - np.rint(sv[t])).max() > 1e-9:
                            bad.append((f'symmetrize-{mode}-images', t))
                            break
                tv = np.asarray(o.transform(x['A'].astype(float)).vectors) / scale
                et = np.array(e['trans'])[:, order]
                if np.abs(tv - et).max() > 1e-9:
                    bad.append(('transform',))
                nv = np.asarray(o.normalize().vectors)
                lens2 = np.linalg.norm(np.asarray(o.vectors), axis=-1) ** 2 * N * N
                if np.abs(lens2 - el).max() > 1e-6 * max(1.0, el.max()):
                    bad.append(('bond-lengths-after-normalize',))
                vlen = np.linalg.norm(vec, axis=-1, keepdims=True)
                if np.abs(nv * vlen - vec).max() > 1e-9 or np.abs(np.linalg.norm(nv, axis=-1) - 1).max() > 1e-12:
                    bad.append(('normalize',))
                if x['scale_vec'] == [1, 1, 1] and np.abs(nv * 3 - k * 1.0).max() > 1e-9:
                    bad.append(('normalize',))
                acf = np.asarray(o.autocorrelation())          # [nb][T]
                num = np.array(e['acf'], dtype=float)[order]   # [nb][T] in grid units^2
                exact = (num / (T - np.arange(T))[None, :]) / (num[:, :1] / T)
                if np.abs(acf - exact).max() > 1e-8:
                    # known deviation D15: the inverse FFT is taken with the default even length 2T-2 instead of 2T-1
                    dev = deviant_acf(vec)
                    if np.abs(acf - dev).max() <= 1e-8:
                        kf = {q['id'] for q in core.known_findings('C18')}
                        if 'D15' in kf:
                            rep.known_finding('D15', next(q['what'] for q in core.known_findings('C18') if q['id'] == 'D15'),
                                              {'T': T, 'observed': acf[0].tolist(), 'definition': exact[0].tolist()})
                        else:
                            bad.append(('autocorrelation', acf[0].tolist(), exact[0].tolist()))
                    else:
                        bad.append(('autocorrelation', acf[0].tolist(), exact[0].tolist()))
                # the derived operations above must not have altered the object they were called on
                if not np.array_equal(np.asarray(o.vectors), vec):
                    bad.append(('vectors-changed-by-a-derived-operation',))
                if abs(acf[:, 0] - 1).max() > 1e-12:
                    bad.append(('autocorrelation-not-one-at-lag-zero',))
        if bad:
            rep.violation({'kind': 'oracle', 'clause': bad[0][0], 'detail': [list(map(str, q)) for q in bad],
                           'meta': {k2: x[k2] for k2 in ('pg', 'fam', 'orient', 'T', 'nc')}, 'cen': rec['cen'], 'sat': rec['sat']})
        elif rec['b'] % 15 == 0:
            rep.sample({'meta': {k2: x[k2] for k2 in ('pg', 'fam', 'orient', 'T', 'nc')}, 'pairs': e['pairs'], 'bonds_frame0': e['bonds'][0]})
    rep.traces += len(recs)
    rep.exhaustive = True
