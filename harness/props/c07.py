"""C07 -- results depend only on geometry: orientation, origin, labelling invariance.

Every case is run through the real code in several representations of the same physical system (reference, rigid rotation of
the lattice vectors, translation of all atoms and sites by a generic fractional vector, permutation of atoms and of sites, and
all of them together).  The outputs of every representation are mapped back with the logged relabelling and judged by the SAME
trace specs against the SAME integer inputs, i.e. against one spec expectation that depends on the metric tensor and index sets
only."""
import math

import numpy as np

from .. import assign_drive as ad
from .. import core, gen, grid_drive
from ..sites_drive import EV_COLS, J_COLS, hist_of, jumps_or_none, rows_of, to_int

N = ad.N_DEFAULT


class System:
    """Integer description of one physical system."""

    def __init__(self, rng, fam):
        self.fam = fam
        self.G = gen.FAMILIES[fam]
        self.R = gen.image_range(self.G)
        self.S = int(rng.integers(3, 6))
        self.sites = ad.pick_sites_faces(rng, self.G, N, self.S, 2.4)
        self.labels = ['A' if i % 2 == 0 else 'B' for i in range(self.S)]
        self.radius, self.Q = ad.pick_radius(rng, N, 0.7, 1.1, [1.0])
        self.T, self.AF = int(rng.integers(8, 16)), int(rng.integers(2, 4))
        # every other system leaves one site unvisited: under a permutation of the sites it may be the first, a middle or the last one
        self.unvisited = int(rng.integers(0, self.S)) if rng.random() < 0.5 else None
        visit = [i for i in range(self.S) if i != self.unvisited]
        self.pos_f = np.array(ad.positions_near(rng, self.G, N, self.sites, [self.radius] * self.S, self.T, self.AF, visit))
        self.AO = int(rng.integers(1, 3))
        base = rng.integers(0, N, size=(self.AO, 3))
        self.pos_o = np.mod(base[None] + np.cumsum(rng.integers(-1, 2, size=(self.T, self.AO, 3)), axis=0), N)
        self.thr = int(math.ceil(self.radius ** 2 * N * N - 1e-9))


def realise(rng, sysm, kind):
    """Build trajectory + site structure in one representation. Returns objects and the relabelling back to the reference."""
    from pymatgen.core import Lattice, Species, Structure
    from gemdat import Trajectory
    rot = kind in ('rot', 'all')
    M = gen.lattice_matrix(sysm.G, 'rot' if rot else 'chol', rng)
    tau = rng.random(3) * 3 - 1 if kind in ('trans', 'all') else np.zeros(3)
    nat = sysm.AF + sysm.AO
    perm_a = rng.permutation(nat) if kind in ('perm', 'all') else np.arange(nat)
    perm_s = rng.permutation(sysm.S) if kind in ('perm', 'all') else np.arange(sysm.S)
    pos_all = np.concatenate([sysm.pos_f, sysm.pos_o], axis=1)
    species_all = ['Li'] * sysm.AF + ['O'] * sysm.AO
    coords = (pos_all[:, perm_a, :] / N) + tau[None, None, :]
    species = [species_all[i] for i in perm_a]
    traj = Trajectory(species=[Species(s) for s in species], coords=coords, lattice=Lattice(M), time_step=2e-15,
                      metadata={'temperature': 400.0})
    site_frac = np.array(sysm.sites)[perm_s] / N + tau[None, :]
    # only the fractional coordinates of the sites count: their Structure may carry a differently oriented / scaled cell
    if kind in ('rot', 'all'):
        Ms = gen.lattice_matrix(sysm.G, ['chol', 'pmg', 'rot'][int(rng.integers(0, 3))], rng) * float(rng.choice([1.0, 1.0, 1.07]))
    else:
        Ms = M
    structure = Structure(lattice=Lattice(Ms), species=['Li'] * sysm.S, coords=site_frac, labels=[sysm.labels[i] for i in perm_s])
    # floating atoms in this representation, in trajectory order, and the reference floating index each one is
    li_cols = [j for j in range(nat) if species[j] == 'Li']
    li_ref = [int(perm_a[j]) for j in li_cols]            # reference atom index (0..AF-1 since Li are first in the reference)
    return traj, structure, {'perm_a': perm_a, 'perm_s': perm_s, 'li_ref': li_ref, 'tau': tau, 'M': M}


def observe(sysm, traj, structure, rel, window, cut):
    """Run the pipeline and express everything in the reference labelling."""
    from scipy.constants import angstrom
    from gemdat import TrajectoryMetrics
    from gemdat.collective import Collective
    from gemdat.rdf import radial_distribution_between_species
    # the radius given as one number or, equivalently, per label (chosen per representation)
    as_dict = bool(np.frombuffer(np.asarray(rel['tau']).tobytes() + np.asarray(rel['perm_s']).tobytes(), dtype=np.uint8).sum() % 2)
    radius_arg = {lab: float(sysm.radius) for lab in sorted(set(sysm.labels))} if as_dict else float(sysm.radius)
    from ..sites_drive import transitions as _transitions
    tr = _transitions(traj, structure, 'Li', site_radius=radius_arg)
    ps = rel['perm_s']
    site_back = lambda s: int(ps[s]) if s >= 0 else -1
    inv_li = np.argsort(rel['li_ref'])                    # column order that restores the reference atom order
    H = hist_of(tr.states, tr.inner_states)
    H = [[[site_back(H[t][j][0]), site_back(H[t][j][1])] for j in inv_li] for t in range(len(H))]
    out = {'hist': H}
    atom_back = lambda j: int(rel['li_ref'][j])

    def ev_back(rows):
        return sorted([[atom_back(r[0]), site_back(r[1]), site_back(r[2]), site_back(r[3]), site_back(r[4]), r[5]] for r in rows],
                      key=lambda r: (r[0], r[5]))

    def j_back(rows):
        return sorted([[atom_back(r[0]), site_back(r[1]), site_back(r[2]), r[3], r[4]] for r in rows])
    out['events'] = ev_back(rows_of(tr.events, EV_COLS))
    # occupancies per site (pymatgen refuses a site occupied by more than one atom: then there is no answer to compare)
    try:
        occ = tr.occupancy()
        num = [0] * sysm.S
        for s_, site in enumerate(occ):
            num[site_back(s_)] = to_int(site.species.num_atoms, len(H))
        out['occ'] = num
    except ValueError as e:
        if 'occupanc' not in str(e).lower():
            raise
    j = jumps_or_none(tr, 0)
    out['jumps'] = j_back(rows_of(j.data, J_COLS)) if j is not None else []
    if j is not None:
        Mx = np.asarray(j.matrix()).astype(int)
        Mref = np.zeros_like(Mx)
        for a in range(sysm.S):
            for c in range(sysm.S):
                Mref[ps[a], ps[c]] = Mx[a, c]
        out['matrix'] = Mref.tolist()
        out['njumps'] = int(j.n_jumps)
        d = 3
        val = float(j.jump_diffusivity(d))
        pref = angstrom ** 2 / (2 * d * sysm.AF * (sysm.T * traj.time_step))
        out['jumpdiff'] = to_int(val / pref, N ** 2)
        col = Collective(jumps=j, sites=structure, lattice=traj.get_lattice(), max_steps=window, max_dist=cut)
        out['nsolo'] = int(col.n_solo_jumps)
        out['ncoll'] = int(col.n_coll_jumps)
        out['pairs'] = [[j_back([[int(ei[k]) for k in J_COLS]])[0], j_back([[int(ej[k]) for k in J_COLS]])[0]] for ei, ej in col.collective]
    out['tracer'] = float(TrajectoryMetrics(traj.filter('Li')).tracer_diffusivity(dimensions=3))
    r = radial_distribution_between_species(trajectory=traj, specie_1='Li', specie_2='O', max_dist=sysm.rdf_max, resolution=sysm.rdf_res)
    vol = math.sqrt(float(np.linalg.det(np.array(sysm.G, dtype=float))))
    x = np.asarray(r.x)
    norm = (sysm.AO / vol) * (4 / 3) * math.pi * ((x + sysm.rdf_res) ** 3 - x ** 3)
    v = np.asarray(r.y) * norm
    out['rdf'] = [int(round(q)) if abs(q - round(q)) < 1e-6 * max(1.0, abs(q)) else -999999 for q in v]
    if sysm.state_rdf:
        from .c11 import parse_state_rdfs
        rd = tr.radial_distribution(floating_specie='Li', max_dist=sysm.rdf_max, resolution=sysm.rdf_res)
        out['state_rdfs'], out['state_rdfs_ok'] = parse_state_rdfs(rd, {'A': 0, 'B': 1}, {'Li': 0, 'O': 1}, sysm.rdf_nb)
    return out


def run(rep):
    quick = rep.tier == 'quick'
    core.gemdat_src_first()
    from .c11 import thresholds
    rep.rule = ('Leg M: MC_Assign TranslationInvariant (assignment commutes with grid translations of atoms and sites together); every spec operator '
                'is a function of the metric tensor, fractional differences and index sets only, so rotation invariance holds by construction. '
                'Leg B: each system (3-5 sites, 2-3 floating + 1-2 framework atoms, 8-15 frames, 6 cell families) is run in 5 representations: '
                'reference, random proper rotation of the lattice vectors, translation of atoms and sites by a generic real vector in [-1,2)^3 '
                '(wrapping through faces), random permutation of atoms and of sites, and all three together. States, events, jumps, jump matrix, '
                'jump diffusivity, collective pairs / solo count, Li-O radial distribution and tracer diffusivity of EVERY representation are '
                'mapped back with the logged relabelling and judged by TraceAssign / TraceSites / TraceColl / TraceRdf against the same integer '
                'inputs; density volumes under translations by whole voxels are un-rolled and judged by TraceGrid; optimal-path costs on rolled '
                'energy grids are judged against the un-rolled grid. Non-trivial = system with at least one jump.')
    rep.assumptions = ['every atom is >= 1e-4 (relative) away from a site-sphere surface and every pair distance >= 2e-5 from an RDF bin edge, so generic float '
                       'translations / rotations cannot change a discrete answer', 'volume translations are whole voxels (stated in the property)',
                       'collective pairs use an explicit correlation window (the default window depends on a float mean frequency)']
    r = core.model_check('MC_Assign', '\n'.join(['SPECIFICATION Spec', 'CONSTANTS N = 4', ' Fam = 0', ' MaxThr = 12',
                                                 'INVARIANT TranslationInvariant', 'INVARIANT UniqueUnderNonOverlap', 'CHECK_DEADLOCK FALSE', '']),
                         workers=16, timeout=2400)
    rep.add_model('MC_Assign N=4 Fam=0 (TranslationInvariant)', r)
    rng = np.random.default_rng(rep.seed + 7)
    fams = list(gen.FAMILIES)
    kinds = ['ref', 'rot', 'trans', 'perm', 'all']
    n_sys = 16 if quick else 300
    assign, sites_recs, coll, rdf, grid = [], [], [], [], []
    tracer_bad = []
    b = 0
    made = 0
    while made < n_sys:
        b += 1
        sysm = System(rng, fams[b % len(fams)])
        pos_all = np.concatenate([sysm.pos_f, sysm.pos_o], axis=1)
        qs = {gen.min_image_sq(sysm.G, [int(pos_all[t, i, c] - pos_all[t, jj, c]) for c in range(3)], N, sysm.R)
              for t in range(sysm.T) for i in range(sysm.AF) for jj in range(sysm.AF + sysm.AO) if jj != i}
        sysm.state_rdf = 0 not in qs            # two atoms on the same point sit on the first bin edge: outside the margin rule
        qs.discard(0)
        thr_rdf = None
        for _ in range(50):
            sysm.rdf_res, sysm.rdf_max = float(rng.uniform(0.4, 1.0)), float(rng.uniform(2.5, 5.0))
            nb = len(np.arange(0, sysm.rdf_max + sysm.rdf_res, sysm.rdf_res)) - 1
            thr_rdf = thresholds(sysm.rdf_res, nb, qs)
            sysm.rdf_nb = nb
            if thr_rdf:
                break
        if not thr_rdf:
            continue
        d2 = sorted({gen.min_image_sq(sysm.G, [sysm.sites[a][i] - sysm.sites[c][i] for i in range(3)], N, sysm.R) / N ** 2
                     for a in range(sysm.S) for c in range(sysm.S)})
        cut = next((c for c in (3.1, 3.7, 4.3, 5.2, 2.6) if all(abs(x - c * c) > 1e-4 * c * c for x in d2)), None)
        if cut is None:
            continue
        window = int(rng.integers(0, 5))
        outs = {}
        try:
            for kind in kinds:
                traj, structure, rel = realise(rng, sysm, kind)
                outs[kind] = observe(sysm, traj, structure, rel, window, cut)
        except ValueError as e:
            if 'need at least one array' in str(e):
                continue
            raise
        made += 1
        if outs['ref']['jumps']:
            rep.nontrivial += 1
        ref_tracer = outs['ref']['tracer']
        # unwrapped displacements are defined only when no coordinate moves by exactly half a cell (C01's domain)
        half = bool(np.any(np.mod(np.diff(sysm.pos_f, axis=0), N) * 2 == N))
        for kind in kinds:
            o = outs[kind]
            bid = b * 10 + kinds.index(kind)
            meta = {'system': b, 'family': sysm.fam, 'representation': kind}
            assign.append({'b': bid, 'G': sysm.G, 'N': N, 'R': sysm.R, 'sites': sysm.sites, 'thr': [sysm.thr] * sysm.S, 'thrIn': [sysm.thr] * sysm.S,
                           'pos': sysm.pos_f.tolist(), 'auto': False, 'raised': False, 'tooClose': False, 'hist': o['hist'], 'meta': meta})
            sites_recs.append({'b': bid, 'act': 'Hist', 'hist': o['hist'], 'meta': meta})
            sites_recs.append({'b': bid, 'act': 'Events', 'rows': o['events'], 'meta': meta})
            sites_recs.append({'b': bid, 'act': 'Jumps', 'm': 0, 'rows': o['jumps'], 'meta': meta})
            if 'occ' in o:
                sites_recs.append({'b': bid, 'act': 'Occ', 'num': o['occ'], 'meta': meta})
            if 'matrix' in o:
                sites_recs.append({'b': bid, 'act': 'Matrix', 'kind': 'jumps', 'm': 0, 'S': sysm.S, 'M': o['matrix'], 'njumps': o['njumps'], 'meta': meta})
                sites_recs.append({'b': bid, 'act': 'JumpDiff', 'm': 0, 'num': o['jumpdiff'], 'sites': sysm.sites, 'G': sysm.G, 'N': N, 'R': sysm.R, 'meta': meta})
                coll.append({'b': bid, 'jumps': outs['ref']['jumps'] if kind == 'ref' else o['jumps'], 'window': window, 'sites': sysm.sites, 'G': sysm.G,
                             'N': N, 'R': sysm.R, 'thr': int(math.ceil(cut * cut * N * N)), 'pairs': o['pairs'], 'nsolo': o['nsolo'], 'ncoll': o['ncoll'],
                             'meta': meta})
            a1 = list(range(1, sysm.AF + 1))
            a2 = list(range(sysm.AF + 1, sysm.AF + sysm.AO + 1))
            if len(o['rdf']) == len(thr_rdf):
                rdf.append({'b': bid, 'act': 'Between', 'G': sysm.G, 'N': N, 'R': sysm.R, 'pos': pos_all.tolist(), 'a1': a1, 'a2': a2, 'thr': thr_rdf,
                            'hist12': o['rdf'], 'hist21': o['rdf'], 'meta': meta})
            if sysm.state_rdf and o.get('state_rdfs_ok'):
                rdf.append({'b': bid, 'act': 'States', 'G': sysm.G, 'N': N, 'R': sysm.R, 'pos': pos_all.tolist(), 'F': a1, 'hist': o['hist'],
                            'labels': [0 if x == 'A' else 1 for x in sysm.labels], 'symbols': [[0, a1], [1, a2]], 'thr': thr_rdf,
                            'rdfs': o['state_rdfs'], 'meta': meta})
            rep.evaluations += 1
            if not half and not (abs(o['tracer'] - ref_tracer) <= 1e-9 * max(abs(ref_tracer), 1e-30)):
                tracer_bad.append({'kind': 'metamorphic', 'clause': 'tracer-diffusivity-changes-with-representation', 'meta': meta,
                                   'reference': ref_tracer, 'observed': o['tracer']})
    # ---- grids: volume under whole-voxel translations, path cost under rolling the energy grid
    from pymatgen.core import Lattice, Species
    from gemdat import Trajectory, trajectory_to_volume
    from gemdat.volume import FreeEnergyVolume
    import networkx as nx
    for k in range(12 if quick else 200):
        fam = fams[k % len(fams)]
        G = gen.FAMILIES[fam]
        lens = [int(round(math.sqrt(G[i][i]))) for i in range(3)]
        T, A = int(rng.integers(2, 7)), int(rng.integers(1, 5))
        kk = 2 * np.array(rng.integers(0, 64, size=(T, A, 3))) + 1
        for _ in range(100):
            res = float(rng.uniform(0.5, 0.9 * min(lens)))
            if all(abs(L / res - round(L / res)) > 0.02 for L in lens):
                break
        dims = [int(L // res) for L in lens]
        shift = [int(rng.integers(0, d)) for d in dims]
        unit = 100000
        for rot in (False, True):
            M = gen.lattice_matrix(G, 'rot' if rot else 'chol', rng)
            tau = np.array(shift) / np.array(dims)
            traj = Trajectory(species=[Species('Li')] * A, coords=kk / 128 + tau[None, None, :], lattice=Lattice(M), time_step=1e-15)
            data = np.asarray(trajectory_to_volume(traj, resolution=res).data)
            if list(data.shape) == dims:
                data = np.roll(data, [-s for s in shift], axis=(0, 1, 2))
            nz = np.argwhere(data > 0)
            grid.append({'b': 500000 + k * 2 + rot, 'act': 'Volume', 'N': 128, 'pos': kk.tolist(), 'L': [L * unit for L in lens], 'res': int(round(res * unit)),
                         'dims': [int(x) for x in data.shape], 'cells': [[int(x), int(y), int(z), int(data[x, y, z])] for x, y, z in nz],
                         'total': int(data.sum()), 'meta': {'family': fam, 'representation': f'voxel-shift {shift} rot={rot}'}})
        # path cost on a rolled grid, reported sites rolled back
        E = grid_drive.random_grid(rng, maxdims=(3, 3, 4))
        free = np.argwhere(E != grid_drive.BLOCKED)
        if len(free) >= 2:
            i, jx = rng.choice(len(free), size=2, replace=False)
            start, stop = free[i], free[jx]
            sh = np.array([int(rng.integers(0, d)) for d in E.shape])
            Er = np.roll(E, sh, axis=(0, 1, 2))
            F = FreeEnergyVolume(data=grid_drive.to_energy(Er, 'sum'), lattice=Lattice.cubic(5.0))
            rec = {'b': 600000 + k, 'act': 'Path', 'E': E.tolist(), 'diagonal': True, 'kind': 'sum', 'start': [int(x) for x in start],
                   'stop': [int(x) for x in stop], 'raised': False, 'sites': [], 'energy': [],
                   'meta': {'representation': f'energy grid rolled by {sh.tolist()}'}}
            try:
                p = F.optimal_path(start=tuple(int(x) for x in (start + sh) % E.shape), stop=tuple(int(x) for x in (stop + sh) % E.shape), method='dijkstra')
                rec['sites'] = [[int(x) for x in (np.array(s) - sh) % E.shape] for s in p.sites]
                rec['energy'] = [int(round(v)) for v in p.energy]
            except (nx.NetworkXNoPath, nx.NodeNotFound):
                rec['raised'] = True
            grid.append(rec)

    def judge(module, recs):
        if not recs:
            return
        metas = [r_.pop('meta') for r_ in recs]
        verdicts = core.validate_traces(module, recs, timeout=2400)
        rep.add_trace_stats()
        for rec, meta, (v, _) in zip(recs, metas, verdicts):
            rep.evaluations += 1
            if v in ('ok',) or v.startswith('known:'):
                continue
            rep.violation({'kind': 'leg-B', 'spec': module, 'clause': v, 'meta': meta,
                           'record': {k2: rec[k2] for k2 in rec if k2 not in ('pos', 'G', 'sites')}})
        rep.traces += len(recs)
    judge('TraceAssign', assign)
    judge('TraceSites', sites_recs)
    judge('TraceColl', coll)
    judge('TraceRdf', rdf)
    judge('TraceGrid', grid)
    for vb in tracer_bad:
        rep.violation(vb)
    rep.sample({'systems': made, 'representations': kinds, 'example': {'family': 'per system', 'records': 'states, events, jumps, matrix, jump diffusivity, collective, rdf'}})
    rep.extra['systems'] = made
    rep.extra['representations_per_system'] = len(kinds)
