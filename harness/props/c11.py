"""C11 -- radial distributions equal brute-force histograms and partition over states."""
import math
import re

import numpy as np

from .. import assign_drive as ad
from .. import core, gen
from ..sites_drive import hist_of

N = ad.N_DEFAULT


def mc_cfg(T, S):
    return '\n'.join(['SPECIFICATION Spec', f'CONSTANTS T = {T}', f' S = {S}', ' NAt = 1', ' MaxRes = 0', ' DoExport = FALSE', ' Mixed = FALSE',
                      'INVARIANT InvStateClassPartition', 'INVARIANT InvFill', 'CHECK_DEADLOCK FALSE', ''])


def thresholds(res, nb, qs):
    """thr[j] = ceil(j^2 res^2 N^2); None if an attainable squared distance q is within 1e-5 (relative) of an edge."""
    thr = []
    for j in range(1, nb + 1):
        v = (j * res) ** 2 * N * N
        for q in qs:
            if q > 0 and abs(q - v) <= 2e-5 * v:
                return None
        thr.append(int(math.ceil(v)))
    return thr


def parse_state_rdfs(rd, lab_code, code, nb):
    """Per-state RDF collection -> [[kind, la, lb, symbol code, counts]]; kind 0 '@X', 1 'X->Y', 2 '~>...'."""
    rdfs = []
    ok = True
    for state, coll in rd.items():
        for r_ in coll:
            if len(r_.y) != nb + 1:
                ok = False
            m = re.fullmatch(r'@(\w+)', state)
            if m:
                key = [0, lab_code[m.group(1)], lab_code[m.group(1)]]
            else:
                m = re.fullmatch(r'(\w+)->(\w+)', state)
                if m:
                    key = [1, lab_code[m.group(1)], lab_code[m.group(2)]]
                elif state.startswith('~>'):
                    key = [2, -1, -1]
                else:
                    key = [9, -1, -1]
            rdfs.append(key + [code[r_.label], [int(v) for v in r_.y]])
    return rdfs, ok


def make_case(rng, b, fam, orient):
    from pymatgen.core import Lattice, Species, Structure
    from scipy.constants import pi  # noqa
    from gemdat import Trajectory
    from gemdat.rdf import radial_distribution_between_species
    G = gen.FAMILIES[fam]
    R = gen.image_range(G)
    M = gen.lattice_matrix(G, orient, rng)
    lattice = Lattice(M)
    S = int(rng.integers(2, 5))
    sites = ad.pick_sites_faces(rng, G, N, S, 2.4)
    nlab = int(rng.integers(2, 4))
    names = ['A', 'B', 'C'][:nlab]
    labels = [names[i % nlab] for i in range(S)]
    rng.shuffle(labels)
    radius, Q = ad.pick_radius(rng, N, 0.7, 1.1, [1.0])
    T, AF = int(rng.integers(3, 8)), int(rng.integers(1, 4))
    pos_f = ad.positions_near(rng, G, N, sites, [radius] * S, T, AF)
    # framework atoms of one or two other species, moving a little on the grid
    other = ['O'] * int(rng.integers(1, 4)) + (['S'] * int(rng.integers(1, 3)) if rng.random() < 0.6 else [])
    AO = len(other)
    base = rng.integers(0, N, size=(AO, 3))
    pos_o = np.mod(base[None] + np.cumsum(rng.integers(-1, 2, size=(T, AO, 3)), axis=0), N)
    order = rng.permutation(AF + AO)
    species_all = (['Li'] * AF + other)
    pos_all = np.concatenate([np.array(pos_f), pos_o], axis=1)[:, order, :]
    species_all = [species_all[i] for i in order]
    coords = pos_all / N + rng.integers(-1, 2, size=pos_all.shape)
    # one chemical element may be present as several distinct species objects (mixed valence, Element next to Species): atoms are
    # grouped by element SYMBOL
    from pymatgen.core import Element
    deco = int(rng.integers(0, 4))
    ox = {'Li': [1, 0], 'O': [-2, -1], 'S': [-2, 4]}

    def mk(sym, i):
        if deco == 0:
            return Species(sym)
        if deco == 1:
            return Element(sym)
        if deco == 2:
            return Species(sym, ox[sym][i % 2])
        return Element(sym) if i % 2 else Species(sym, ox[sym][0])
    traj = Trajectory(species=[mk(s, i) for i, s in enumerate(species_all)], coords=coords, lattice=lattice, time_step=1e-15,
                      metadata={'temperature': 300.0})
    # the sites may come with a cell of their own (a reference structure file): distances are those of the simulation cell
    site_cell_scale = float(rng.choice([1.0, 1.0, 1.2, 0.85, 1.07]))
    structure = Structure(lattice=Lattice(M * site_cell_scale), species=['Li'] * S, coords=np.array(sites) / N, labels=labels)
    # all attainable squared distances
    qs = set()
    for t in range(T):
        for i in range(AF + AO):
            for j in range(AF + AO):
                qs.add(gen.min_image_sq(G, [int(pos_all[t, i, c] - pos_all[t, j, c]) for c in range(3)], N, R))
    # two distinct atoms at exactly the same position are at distance 0 = a bin edge: outside the margin rule
    coincide = any(tuple(pos_all[t, i]) == tuple(pos_all[t, j]) for t in range(T) for i in range(AF + AO) for j in range(i))
    if coincide:
        return None
    for _ in range(100):
        res = float(rng.uniform(0.3, 1.2))
        max_dist = float(rng.uniform(2.0, 5.5))
        bins = np.arange(0, max_dist + res, res)
        nb = len(bins) - 1
        thr = thresholds(res, nb, qs)
        if thr is not None:
            break
    else:
        return None
    syms = sorted(set(species_all))
    code = {s: i for i, s in enumerate(syms)}
    recs = []
    # ---- between species
    s1, s2 = (str(x) for x in rng.choice(syms, size=2, replace=True))
    if b % 3 == 0:
        traj.displacements
    if b % 2:
        r12 = radial_distribution_between_species(trajectory=traj, specie_1=s1, specie_2=s2, max_dist=max_dist, resolution=res)
    else:          # the same through the method on the trajectory
        r12 = traj.radial_distribution_between_species(specie_1=s1, specie_2=s2, max_dist=max_dist, resolution=res)
    r21 = radial_distribution_between_species(trajectory=traj, specie_1=s2, specie_2=s1, max_dist=max_dist, resolution=res)
    vol = math.sqrt(float(np.linalg.det(np.array(G, dtype=float))))

    def raw(r, n2):
        x = np.asarray(r.x)
        norm = (n2 / vol) * (4 / 3) * math.pi * ((x + res) ** 3 - x ** 3)
        v = np.asarray(r.y) * norm
        return [int(round(q)) if abs(q - round(q)) < 1e-6 * max(1.0, abs(q)) else -999999 for q in v]
    a1 = [i + 1 for i, s in enumerate(species_all) if s == s1]
    a2 = [i + 1 for i, s in enumerate(species_all) if s == s2]
    # "every pair within the cut-off is counted in one bin": the bins must reach the cut-off
    short = [(name, len(r_.x)) for name, r_ in (('between', r12), ('between-swapped', r21)) if len(r_.x) * res < max_dist - 1e-9]
    if short:
        recs.append({'b': b, 'act': 'Broken', 'clause': 'bins-do-not-reach-the-cut-off', 'detail': short,
                     'meta': {'family': fam, 'orientation': orient, 'res': res, 'max_dist': max_dist, 'bins_expected': nb}})
    elif len(r12.x) != nb or len(r21.x) != nb:
        recs.append({'b': b, 'act': 'Broken', 'clause': 'number-of-bins', 'detail': [len(r12.x), len(r21.x), nb],
                     'meta': {'family': fam, 'orientation': orient, 'res': res, 'max_dist': max_dist, 'bins_expected': nb}})
    else:
        recs.append({'b': b, 'act': 'Between', 'G': G, 'N': N, 'R': R, 'pos': pos_all.tolist(), 'a1': a1, 'a2': a2, 'thr': thr,
                     'hist12': raw(r12, len(a2)), 'hist21': raw(r21, len(a1)),
                     'meta': {'family': fam, 'orientation': orient, 'res': res, 'max_dist': max_dist, 'species': [s1, s2]}})
    # ---- per state
    try:
        from ..sites_drive import transitions as _transitions
        # states are defined by the SITE an atom is at (outer sphere), whatever the inner fraction used for jumps
        inner_f = float([1.0, 0.5, 0.75][b % 3])
        tr = _transitions(traj, structure, 'Li', site_radius=float(radius), site_inner_fraction=inner_f)
    except ValueError as e:
        if 'need at least one array' in str(e):      # no site change at all: outside the domain of the event builder
            return recs
        raise
    if b % 2:
        # unrelated analyses on the same trajectory object in between (they switch its internal representation)
        traj.mean_squared_displacement(), traj.displacements, traj.distances_from_base_position()
        if b % 4 == 1:
            tr.diff_trajectory.displacements
    rd = tr.radial_distribution(floating_specie='Li', max_dist=max_dist, resolution=res)
    lab_code = {n_: i for i, n_ in enumerate(names)}
    rdfs, ok = parse_state_rdfs(rd, lab_code, code, nb)
    F = [i + 1 for i, s in enumerate(species_all) if s == 'Li']
    if not ok:
        recs.append({'b': b, 'act': 'Broken', 'clause': 'per-state-number-of-bins', 'detail': sorted({len(r_.y) for coll in rd.values() for r_ in coll}) + [nb + 1],
                     'meta': {'family': fam, 'orientation': orient, 'res': res, 'max_dist': max_dist}})
    else:
        recs.append({'b': b, 'act': 'States', 'G': G, 'N': N, 'R': R, 'pos': pos_all.tolist(), 'F': F,
                     'hist': hist_of(tr.states, tr.inner_states), 'labels': [lab_code[x] for x in labels],
                     'symbols': [[code[s], [i + 1 for i, q in enumerate(species_all) if q == s]] for s in syms], 'thr': thr, 'rdfs': rdfs,
                     'meta': {'family': fam, 'orientation': orient, 'res': res, 'max_dist': max_dist, 'labels': labels, 'states': sorted(rd), 'inner_fraction': inner_f,
                              'species_objects': ['Species', 'Element', 'mixed valence', 'Element and Species mixed'][deco]}})
    return recs


def run(rep):
    quick = rep.tier == 'quick'
    core.gemdat_src_first()
    rep.rule = ('Leg M: on every site history up to length T the state classification (at X / X->Y / in transit with unknown end) built from the '
                'previous/next-site views assigns every frame to exactly one class. Leg B: trajectories with 2-3 species on a /64 grid (floating '
                'atoms steered around sites, framework atoms drifting), 6 cell families x 3 orientations, 2-3 site labels, random resolution and '
                'cut-off with every attainable squared distance >= 2e-5 (relative) away from a bin edge; TraceRdf recomputes all minimum-image '
                'pair distances from the integer metric tensor and checks radial_distribution_between_species (y x ideal-gas shell count = integer '
                'histogram; raw counts symmetric in the two species) and Transitions.radial_distribution (per state, per symbol, per bin; the '
                'states partition the pairs; @X only at sites labelled X; X->Y only between leaving X and reaching Y). '
                'Non-trivial = States record with >= 2 different states observed.')
    rep.assumptions = ['bin edges: no attainable distance within 2e-5 relative of an edge (two distinct atoms never coincide: distance 0 is the first edge), so histogram conventions (open/closed side) do not matter',
                       'the name given to in-transit frames whose previous or next site does not exist ("~>...") is not constrained; their counts are compared in total',
                       'shell normalisation is applied by alpha from det G and the resolution']
    r = core.model_check('MC_Sites', mc_cfg(5 if quick else 7, 2), workers=8, timeout=2400)
    rep.add_model('MC_Sites (InvStateClassPartition, InvFill)', r)
    rng = np.random.default_rng(rep.seed + 11)
    fams = list(gen.FAMILIES)
    recs = []
    n = 48 if quick else 700
    b = 0
    while b < n:
        c = make_case(rng, b, fams[b % len(fams)], ['chol', 'pmg', 'rot'][b % 3])
        b += 1
        if c is None:
            rep.extra['rejected_by_margin'] = rep.extra.get('rejected_by_margin', 0) + 1
            continue
        recs += c
    for r_ in [r_ for r_ in recs if r_['act'] == 'Broken']:
        if r_['clause'] == 'bins-do-not-reach-the-cut-off':
            rep.evaluations += 1
            rep.violation({'kind': 'leg-B', 'clause': r_['clause'], 'detail': r_['detail'], 'meta': r_['meta']})
        else:
            # another number of bins than numpy.arange(0, cut-off + resolution, resolution) gives, but reaching the cut-off: a legal
            # binning this harness has no thresholds for -- not judged, and counted so that it cannot go unnoticed
            rep.extra['not_judged_other_binning'] = rep.extra.get('not_judged_other_binning', 0) + 1
    recs = [r_ for r_ in recs if r_['act'] != 'Broken']
    if len(recs) < 10 and not rep.violations:
        raise core.Machinery(f'C11 produced only {len(recs)} records to judge')
    metas = [r_.pop('meta') for r_ in recs]
    verdicts = core.validate_traces('TraceRdf', recs, timeout=2400) if recs else []
    rep.add_trace_stats()
    for rec, meta, (v, act) in zip(recs, metas, verdicts):
        rep.evaluations += 1
        if rec['act'] == 'States' and len(meta['states']) >= 2:
            rep.nontrivial += 1
        if v != 'ok':
            rep.violation({'kind': 'leg-B', 'clause': v, 'meta': meta, 'record': {k: rec[k] for k in rec if k not in ('pos',)}})
        elif rec['b'] % 12 == 0:
            rep.sample({'meta': meta, 'act': rec['act'], 'observed': rec.get('hist12') or rec.get('rdfs')[:2]})
    rep.traces += len(recs)
    long_run(rep, rng, 1505 if quick else 12007)
    rep.exhaustive = True


def long_run(rep, rng, T):
    """Scale in the number of frames: a short trajectory (of the kind judged above) repeated to T frames.  The pair histogram is a
    sum over frames (the returned g(r) is that sum over the ideal-gas shell count), so K repeats must give K times the short run's values
    (both species orders), whatever block size the implementation works in."""
    from pymatgen.core import Lattice, Species
    from gemdat import Trajectory
    from gemdat.rdf import radial_distribution_between_species
    G = gen.FAMILIES['tric']
    M = gen.lattice_matrix(G, 'rot', rng)
    T0, A = 7, 5
    pos = rng.integers(0, N, size=(T0, A, 3))
    species = [Species(x) for x in ('Li', 'Li', 'O', 'O', 'S')]
    K = -(-T // T0)
    small = Trajectory(species=species, coords=pos / N, lattice=Lattice(M), time_step=1e-15, metadata={'temperature': 300.0})
    big = Trajectory(species=species, coords=np.tile(pos / N, (K, 1, 1))[:K * T0], lattice=Lattice(M), time_step=1e-15, metadata={'temperature': 300.0})
    for (s1, s2) in (('Li', 'O'), ('O', 'Li'), ('Li', 'S')):
        rs = radial_distribution_between_species(trajectory=small, specie_1=s1, specie_2=s2, max_dist=4.3, resolution=0.37)
        rb = radial_distribution_between_species(trajectory=big, specie_1=s1, specie_2=s2, max_dist=4.3, resolution=0.37)
        rep.evaluations += 1
        rep.nontrivial += 1
        ys, yb = np.asarray(rs.y, dtype=float), np.asarray(rb.y, dtype=float)
        # g(r) as returned is the pair count summed over frames divided by the ideal-gas shell count: K repeats give K times the value
        if ys.shape != yb.shape or not np.allclose(yb, K * ys, rtol=1e-9, atol=1e-12):
            rep.violation({'kind': 'scale', 'clause': 'rdf-of-repeated-trajectory-differs', 'frames': K * T0, 'species': [s1, s2],
                           'short': ys.tolist()[:8], 'long': yb.tolist()[:8]})
    rep.extra['long_run'] = {'frames': K * T0}
