"""Shared legs for the site-history properties C03 C04 C05 C19 (spec: Sites.tla, MC_Sites, TraceSites)."""
from __future__ import annotations

import time

import numpy as np

from . import core, gen, sites_drive
from .core import Report

ALL_INVS = {
    'C03': ['InvEventsAreChanges', 'InvReplay', 'InvRowsReal', 'InvFill'],
    'C04': ['InvDefScan', 'InvDefault', 'InvSubset', 'InvMono', 'InvNoDup'],
    'C05': ['InvMatrix'],
    'C19': ['InvPartsSubset'],
}
ACTS = {
    'C03': {'Hist', 'Events', 'Counts', 'Prev', 'Next'},
    'C04': {'Hist', 'Jumps', 'Mono'},
    'C05': {'Hist', 'Counts', 'Jumps', 'Matrix', 'Counter', 'Edges', 'Occ', 'AtomLoc', 'OccType', 'EdgeCounts', 'JumpDiff', 'Split', 'Rates'},
    'C19': {'Hist', 'Split', 'TrajSplit', 'Rates'},
}
# verdicts that belong to another property's clause are not judged by this property
JUDGED = {
    'C03': {'Events', 'Counts', 'Prev', 'Next'},
    'C04': {'Jumps', 'Mono'},
    'C05': {'Counts', 'Matrix', 'Counter', 'Edges', 'Occ', 'AtomLoc', 'OccType', 'EdgeCounts', 'JumpDiff', 'Rates'},
    'C19': {'Split', 'TrajSplit'},
}


def mc_cfg(T, S, NAt, MaxRes, invs, export=False, mixed=False):
    lines = ['SPECIFICATION Spec', f'CONSTANTS T = {T}', f' S = {S}', f' NAt = {NAt}', f' MaxRes = {MaxRes}',
             f' DoExport = {"TRUE" if export else "FALSE"}', f' Mixed = {"TRUE" if mixed else "FALSE"}']
    lines += [f'INVARIANT {i}' for i in invs]
    lines += ['CHECK_DEADLOCK FALSE', '']
    return '\n'.join(lines)


def leg_m(rep: Report, prop: str, instances):
    for inst in instances:
        (T, S, NAt, MaxRes), mixed = inst[:4], (len(inst) > 4 and inst[4] == 'mixed')
        r = core.model_check('MC_Sites', mc_cfg(T, S, NAt, MaxRes, ALL_INVS[prop], mixed=mixed), workers=8, timeout=1500)
        rep.add_model(f'MC_Sites T={T} S={S} NAt={NAt} MaxRes={MaxRes}{" Mixed (overlapping spheres: inner site may differ from the site)" if mixed else ""} invs={",".join(ALL_INVS[prop])}', r)
        # vacuity guard: the instance must have enumerated every history
        per = (1 + 2 * S + (S * (S - 1) if mixed else 0)) ** NAt
        expect = sum(per ** t for t in range(T + 1))
        if r.ok and r.distinct != expect:
            raise core.Machinery(f'MC_Sites enumerated {r.distinct} states, expected {expect}')


def leg_a(rep: Report, prop: str, T, S, MaxRes):
    """spec -> code: TLC exports every single-atom history of length 2..T with the spec's expected event table,
    prev/next views and jump tables; all histories of one length are realised as the atoms of one trajectory and
    pushed through the public API."""
    core.gemdat_src_first()
    r = core.run_tlc('MC_Sites', mc_cfg(T, S, 1, MaxRes, ['ExportAll'], export=True), workers=1, timeout=1500)
    if not r.completed:
        raise core.Machinery('export run failed\n' + r.out[-2000:])
    cases = r.json_prints()
    per = 1 + 2 * S
    expect = sum(per ** t for t in range(2, T + 1))
    if len(cases) != expect:
        raise core.Machinery(f'export produced {len(cases)} histories, expected {expect}')
    rep.states += r.distinct
    rep.transitions += r.generated
    by_len = {}
    for c in cases:
        by_len.setdefault(len(c['hist']), []).append(c)
    rng = np.random.default_rng(rep.seed)
    replayed = 0
    nontrivial = 0
    for Tlen, cs in sorted(by_len.items()):
        world = gen.SiteWorld(rng, 'ortho', 'chol', N=32, n_sites=S, radius=1.0, inner_fraction=0.5)
        # atoms = histories
        hist = [[c['hist'][t][0] for c in cs] for t in range(Tlen)]
        traj = world.trajectory(hist)
        tr = traj.transitions_between_sites(world.structure, 'Li', site_radius=1.0, site_inner_fraction=0.5)
        H = sites_drive.hist_of(tr.states, tr.inner_states)
        if H != hist:
            bad = next(a for a in range(len(cs)) if [H[t][a] for t in range(Tlen)] != [hist[t][a] for t in range(Tlen)])
            rep.violation({'kind': 'leg-A', 'clause': 'states-differ-from-intended', 'history': cs[bad]['hist']})
            continue
        # events: may legitimately fail only if no atom has any change -- impossible here (many histories)
        ev = sites_drive.rows_of(tr.events, sites_drive.EV_COLS)
        ev_by_atom = {}
        for row in ev:
            ev_by_atom.setdefault(row[0], []).append(row[1:])
        prev = np.asarray(tr.states_prev()).astype(int)
        nxt = np.asarray(tr.states_next()).astype(int)
        jumps_by_m = {}
        for m in range(MaxRes + 1):
            j = sites_drive.jumps_or_none(tr, m)
            d = {}
            if j is not None:
                for row in sites_drive.rows_of(j.data, sites_drive.J_COLS):
                    d.setdefault(row[0], []).append(row[1:])
            jumps_by_m[m] = d
        for a, c in enumerate(cs):
            replayed += 1
            exp_ev = [row[1:] for row in c['events']]
            got_ev = ev_by_atom.get(a, [])
            if exp_ev:
                nontrivial += 1
            bad = None
            if prop == 'C03':
                if got_ev != exp_ev:
                    bad = ('event-rows', exp_ev, got_ev)
                elif list(prev[:, a]) != c['prev'][0] or list(nxt[:, a]) != c['next'][0]:
                    bad = ('states-prev-next', c['prev'][0], [int(x) for x in prev[:, a]])
            if prop in ('C04', 'C05'):
                for m in range(MaxRes + 1):
                    exp_j = sorted(row[1:] for row in c['jumps'][m])
                    got_j = sorted(jumps_by_m[m].get(a, []))
                    if exp_j != got_j:
                        bad = (f'jump-classifier m={m}', exp_j, got_j)
                        break
            if bad:
                rep.violation({'kind': 'leg-A', 'clause': bad[0], 'history': c['hist'], 'expected': bad[1], 'observed': bad[2]})
            elif exp_ev and a % 499 == 3:
                rep.sample({'leg': 'A', 'history': c['hist'], 'expected_events': c['events'], 'expected_jumps_m0': c['jumps'][0]})
    rep.traces += replayed
    rep.evaluations += replayed
    rep.nontrivial += nontrivial
    rep.extra.setdefault('leg_A', {})[f'T<={T},S={S}'] = {'histories_exported': len(cases), 'replayed': replayed,
                                                          'with_events': nontrivial}
    return replayed


def leg_b(rep: Report, prop: str, n_cases, T, A, S, families, ms=(0, 1, 2, 5), ks=(1, 2, 3, 5), want=None):
    core.gemdat_src_first()
    rng = np.random.default_rng(rep.seed + 17)
    recs = []
    meta = {}
    if prop == 'C05':
        # pinned input of known finding D5 first, so that its KNOWN-FINDING line does not depend on the random seed:
        # one atom leaves site 0 for nowhere and later arrives at site 1 (two events involving "no site")
        world = gen.SiteWorld(np.random.default_rng(5), 'cubic', 'chol', N=32, n_sites=2, radius=1.0, inner_fraction=1.0)
        pinned = [[[0, 0]], [[0, 0]], [[-1, -1]], [[-1, -1]], [[1, 1]], [[1, 1]]]
        r, _ = sites_drive.record_pipeline(-1, world, pinned, inner_fraction=1.0, ms=(0,), ks=(), want={'Hist', 'Matrix'})
        meta[-1] = {'family': 'cubic', 'pinned': 'D5'}
        recs += r
    for b in range(n_cases):
        fam = families[b % len(families)]
        orient = ['chol', 'pmg', 'rot'][b % 3] if fam not in gen.ORTHO_FAMILIES or True else 'chol'
        inner_fraction = [0.5, 1.0, 0.75][b % 3]
        world = gen.SiteWorld(rng, fam, orient, N=32, n_sites=S, radius=1.0, inner_fraction=inner_fraction)
        # every fourth case: the site with the highest index is never visited (and, every eighth, neither is site 0)
        hist = gen.random_history(rng, T, A, S - 1 if (b % 4 == 3 and S >= 3) else S, p_stay=float(rng.choice([0.5, 0.7, 0.85])), inner=inner_fraction < 1)
        if b % 8 == 7 and S >= 3:
            hist = [[[x + 1 if x >= 0 else x for x in st] for st in fr] for fr in hist]
        try:
            r, tr = sites_drive.record_pipeline(b, world, hist, inner_fraction=inner_fraction, ms=ms, ks=ks,
                                                want=want or ACTS[prop])
        except ValueError as e:
            if 'need at least one array' in str(e):   # no change at all: outside the domain
                continue
            raise
        if 'TrajSplit' in (want or ACTS[prop]):
            traj = world.trajectory(hist)
            for k in ks:
                if k <= T - 1:
                    r.append(sites_drive.traj_split_record(b, traj, k, bool(k % 2)))
        meta[b] = {'family': fam, 'orientation': orient, 'inner_fraction': inner_fraction, 'T': T, 'A': A, 'S': S}
        recs += r
    verdicts = core.validate_traces('TraceSites', recs, timeout=1500)
    rep.add_trace_stats()
    judged = JUDGED[prop]
    kf = {k['id']: k for k in core.known_findings(prop)}
    n_nontrivial = 0
    seen_b = set()
    for rec, (v, act) in zip(recs, verdicts):
        if rec['act'] == 'Hist' and v == 'ok':
            seen_b.add(rec['b'])
        if rec['act'] not in judged:
            continue
        rep.evaluations += 1
        if _nontrivial(rec):
            n_nontrivial += 1
        if v == 'ok':
            if rec['b'] % 50 == 0:
                rep.sample({'leg': 'B', 'record': _short(rec), 'meta': meta.get(rec['b'])})
            continue
        if v.startswith('known:'):
            fid = v.split(':', 1)[1]
            if fid in kf:
                rep.known_finding(fid, kf[fid]['what'], _short(rec))
                continue
        rep.violation({'kind': 'leg-B', 'clause': v, 'record': rec, 'meta': meta.get(rec['b'])})
    rep.traces += len(meta)
    rep.nontrivial += n_nontrivial
    rep.extra.setdefault('leg_B', {}).update({'behaviours': len(meta), 'records': len(recs),
                                              'states_matched_intended': len(seen_b), 'T': T, 'A': A, 'S': S})


def _nontrivial(rec):
    for key in ('rows', 'edges', 'counts', 'parts', 'sums', 'ranges'):
        if key in rec and len(rec[key]) > 0:
            return True
    if rec['act'] in ('Prev', 'Next', 'Occ', 'AtomLoc', 'OccType', 'Matrix', 'JumpDiff'):
        return True
    return False


def _short(rec):
    s = {}
    for k, v in rec.items():
        if isinstance(v, list) and len(str(v)) > 300:
            s[k] = str(v)[:300] + '...'
        else:
            s[k] = v
    return s


def narrow_dtype_cases(rep: Report, n_cases=6, T_long=300):
    """C03: the previous/next-site views on Transitions objects built through the public constructor from long state arrays of
    narrow integer dtypes (more frames than an int8 can count)."""
    core.gemdat_src_first()
    from gemdat import Transitions
    rng = np.random.default_rng(rep.seed + 303)
    recs = []
    for b in range(n_cases):
        world = gen.SiteWorld(rng, 'ortho', 'chol', N=32, n_sites=3, radius=1.0, inner_fraction=0.5)
        for _ in range(200):
            # every atom is seen at two different sites in each third of the period: wherever a frame counter wraps or saturates,
            # the answer for the frames after it differs from the answer at the frame where it stuck
            hist = gen.random_history(rng, 30, 2, 3, p_stay=0.7, inner=True)
            tr = world.trajectory(hist).transitions_between_sites(world.structure, 'Li', site_radius=1.0, site_inner_fraction=0.5)
            st = np.asarray(tr.states)
            if all(len(set(st[lo:lo + 10, a].tolist()) - {-1}) >= 2 for a in range(st.shape[1]) for lo in (0, 10, 20)):
                break
        reps = -(-T_long // 30)
        dt = [np.int8, np.int16, np.int32, np.int64][b % 4]
        states = np.tile(np.asarray(tr.states), (reps, 1)).astype(dt)
        inner = np.tile(np.asarray(tr.inner_states), (reps, 1)).astype(dt)
        t2 = Transitions(trajectory=tr.trajectory, diff_trajectory=tr.diff_trajectory, sites=tr.sites, events=tr.events, states=states,
                         inner_states=inner)
        H = sites_drive.hist_of(states, inner)
        bid = 700000 + b
        recs.append({'b': bid, 'act': 'Hist', 'hist': H})
        recs.append({'b': bid, 'act': 'Prev', 'arr': np.asarray(t2.states_prev()).astype(int).tolist(), 'dtype': str(np.dtype(dt))})
        recs.append({'b': bid, 'act': 'Next', 'arr': np.asarray(t2.states_next()).astype(int).tolist(), 'dtype': str(np.dtype(dt))})
    verdicts = core.validate_traces('TraceSites', recs, timeout=1500, shards=min(core.NCPU, n_cases))
    rep.add_trace_stats()
    for rec, (v, act) in zip(recs, verdicts):
        if rec['act'] == 'Hist':
            continue
        rep.evaluations += 1
        rep.nontrivial += 1
        if v != 'ok':
            rep.violation({'kind': 'leg-B', 'clause': v + '-long-narrow-dtype', 'dtype': rec['dtype'], 'frames': len(rec['arr'])})
    rep.traces += n_cases
    rep.extra['narrow_dtype_long_histories'] = {'cases': n_cases, 'frames': T_long}


def many_sites(rep: Report, n=11, window=120, ms=(0,), want=('Hist', 'Events', 'Prev', 'Next', 'Jumps')):
    """Scale in the number of SITES: n^3 sites (1331 for n = 11); one atom walks down the site indices going from the outer shell of
    site k straight into the inner part of site k-1, another walks up going from the inner part of k into the outer shell of k+1, a
    third hops between inner parts k -> k+1 with frames at no site in between.  Every pair of consecutive site indices occurs in every
    kind of (outer, inner) change, so whatever the code packs, hashes or indexes by site number is exercised for every number up to
    n^3.  The long run is cut into windows of frames, each analysed by the real code with the full site set and judged by TraceSites."""
    core.gemdat_src_first()
    rng = np.random.default_rng(rep.seed + 505)
    world = gen.grid_world(rng, n)
    S = n ** 3
    down, up, hop = [], [], []
    for k in range(S - 1, 0, -1):
        down += [[k, -1], [k - 1, k - 1]]
    for k in range(0, S - 1):
        up += [[k, k], [k + 1, -1]]
    for k in range(0, S - 1):
        hop += [[k, k], [-1, -1]] if k % 3 == 0 else [[k, k], [k, -1]]
    T = min(len(down), len(up), len(hop))
    hist = [[down[t], up[t], hop[t]] for t in range(T)]
    from gemdat import Trajectory
    full = world.trajectory(hist)
    pos = np.asarray(full.positions)
    recs = []
    b = 600000
    for lo in range(0, T - 1, window - 1):          # windows overlap by one frame: no change between two frames is left out
        hi = min(T, lo + window)
        part = Trajectory(species=full.species, coords=pos[lo:hi], lattice=full.get_lattice(), time_step=full.time_step,
                          metadata=dict(full.metadata))
        r_, _ = sites_drive.record_pipeline(b, world, hist[lo:hi], inner_fraction=0.5, ms=ms, ks=(), want=set(want), traj=part)
        recs += r_
        b += 1
    verdicts = core.validate_traces('TraceSites', recs, timeout=1500)
    rep.add_trace_stats()
    for rec, (v, act) in zip(recs, verdicts):
        rep.evaluations += 1
        rep.nontrivial += 1
        if v != 'ok':
            rep.violation({'kind': 'leg-B', 'clause': v + '-many-sites', 'sites': S, 'act': rec['act'],
                           'record': {k: (rec[k] if k not in ('hist', 'intended', 'arr') else rec[k][:6]) for k in rec}})
            break
    rep.traces += b - 600000
    rep.extra['many_sites'] = {'sites': S, 'frames': T, 'windows': b - 600000}


def overlap_cases(rep: Report, prop: str, n_cases, T=40, A=3, ms=(0, 1, 3)):
    """Overlapping site spheres (an explicit radius above half the distance between two sites): outside the domain of the
    assignment rule (C02), but whatever states the code records there are a legal input of the event table and the jump
    classifier: the atom can be recorded at one site while inside the inner sphere of its neighbour.  The recorded states are the
    input; events / prev / next / jumps are judged by TraceSites against them (Leg M covers the same states: MC_Sites Mixed)."""
    core.gemdat_src_first()
    from pymatgen.core import Structure
    rng = np.random.default_rng(rep.seed + 606)
    recs, meta, mixed_frames = [], {}, 0
    want = (ACTS[prop] & {'Hist', 'Events', 'Prev', 'Next', 'Jumps', 'Mono'})
    for k in range(n_cases):
        b = 500000 + k
        f = [0.5, 0.75, 0.5, 0.3][k % 4]
        world = gen.SiteWorld(rng, ['cubic', 'ortho', 'tric'][k % 3], ['chol', 'pmg', 'rot'][k % 3], N=32, n_sites=3, radius=1.0, inner_fraction=f)
        base = np.array(world.sites_k) / world.N
        dpair = float(rng.uniform(1.03, 1.0 + f - 0.06))                            # a fourth site closer than r (1 + f) to site 0:
        twin = base[0] + world._offset_frac(dpair)                                   # its outer shell reaches into the inner sphere of site 0
        order = rng.permutation(4)                                                   # which of the overlapping pair comes later varies
        frac = np.vstack([base, twin[None]])[order]
        world.structure = Structure(lattice=world.lattice, species=['Li'] * 4, coords=frac, labels=[f'L{i % 2}' for i in range(4)])
        pair = [int(np.where(order == 0)[0][0]), int(np.where(order == 3)[0][0])]
        coords = np.zeros((T, A, 3))
        cur = [None] * A
        for t in range(T):
            for a in range(A):
                if cur[a] is None or rng.random() < 0.45:
                    r = rng.random()
                    if r < 0.2:
                        p = np.array(world.far_k[int(rng.integers(0, len(world.far_k)))]) / world.N
                    elif r < 0.75:      # in and around the overlapping pair, incl. points inside one inner sphere and the other outer shell
                        w = int(rng.integers(0, 2))
                        c = frac[pair[w]]
                        if rng.random() < 0.5:      # on the axis of the pair: inside the inner sphere of one, in the outer shell of the other
                            tt = float(rng.uniform(dpair - 1.0 + 0.02, f - 0.02))
                            p = c + (frac[pair[1 - w]] - c) * (tt / dpair)
                        else:
                            p = c + world._offset_frac(float(rng.choice([0.1, 0.3, 0.45, 0.6, 0.8, 0.95])))
                    else:
                        c = frac[int(rng.integers(0, 4))]
                        p = c + world._offset_frac(float(rng.choice([0.1, 0.6, 0.9])))
                    cur[a] = p
                coords[t, a] = cur[a] + world._offset_frac(0.01)
        from gemdat import Trajectory
        from pymatgen.core import Species
        traj = Trajectory(species=[Species('Li')] * A, coords=coords, lattice=world.lattice, time_step=1e-15, metadata={'temperature': 300.0})
        try:
            r_, tr = record_pipeline_overlap(b, world, traj, f, ms, want)
        except ValueError as e:
            if 'need at least one array' in str(e):
                continue
            raise
        H = r_[0]['hist']
        mixed_frames += sum(1 for row in H for (o, i) in row if i not in (-1, o))
        meta[b] = {'family': world.family, 'inner_fraction': f, 'overlapping_pair': pair, 'kind': 'overlapping spheres'}
        recs += r_
    verdicts = core.validate_traces('TraceSites', recs, timeout=1500)
    rep.add_trace_stats()
    for rec, (v, act) in zip(recs, verdicts):
        if rec['act'] not in JUDGED[prop] and rec['act'] != 'Hist':
            continue
        rep.evaluations += 1
        if _nontrivial(rec):
            rep.nontrivial += 1
        if v != 'ok':
            rep.violation({'kind': 'leg-B', 'clause': v + '-overlapping-spheres', 'record': rec, 'meta': meta.get(rec['b'])})
    rep.traces += len(meta)
    rep.extra['overlapping_spheres'] = {'cases': len(meta), 'atom_frames_with_inner_site_other_than_site': mixed_frames}
    if mixed_frames == 0:
        raise core.Machinery('overlapping-sphere generator produced no frame with inner site != site')


def record_pipeline_overlap(b, world, traj, f, ms, want):
    return sites_drive.record_pipeline(b, world, None, inner_fraction=f, ms=ms, ks=(), want=set(want), traj=traj, overlap=True)


def split_sweep(rep: Report, Lmax, nmax):
    """Trajectory.split for EVERY (number of frames, number of parts) up to the bounds (both with and without equal_parts): the frame
    ranges of the parts, found by matching their positions in the source, are judged by TraceSites (VTrajSplit)."""
    core.gemdat_src_first()
    from pymatgen.core import Lattice, Species
    from gemdat import Trajectory
    rng = np.random.default_rng(rep.seed + 707)
    recs = []
    lat = Lattice(gen.lattice_matrix(gen.FAMILIES['tric'], 'pmg'))
    b = 300000
    for L in range(2, Lmax + 1):
        coords = np.zeros((L, 2, 3))
        coords[:, 0, 0] = (np.arange(L) + 0.5) / L                       # every frame is distinct
        coords[:, 1, :] = rng.random((L, 3))
        src = Trajectory(species=[Species('Li'), Species('O')], coords=coords, lattice=lat, time_step=1e-15, metadata={'temperature': 300})
        for n in range(1, min(L - 1, nmax) + 1):
            if (L + n) % 5 == 0:
                src.displacements                                            # the source in either internal representation
            recs.append(sites_drive.traj_split_record(b, src, n, bool((L * 7 + n) % 3 == 0)))
            b += 1
    verdicts = core.validate_traces('TraceSites', recs, timeout=1500)
    rep.add_trace_stats()
    bad = 0
    for rec, (v, act) in zip(recs, verdicts):
        rep.evaluations += 1
        rep.nontrivial += 1
        if v != 'ok' and bad < 3:
            bad += 1
            rep.violation({'kind': 'leg-B', 'clause': v, 'frames': rec['T'], 'n_parts': rec['k'], 'equal_parts': rec['equal'], 'ranges': rec['ranges'][-3:]})
    rep.traces += len(recs)
    rep.extra['split_sweep'] = {'frames_up_to': Lmax, 'parts_up_to': nmax, 'splits': len(recs)}


def scale_by_tiling(rep: Report, total_frames=33200, ms=(0, 4)):
    """C03/C04 at scale: a TLC-judged periodic history (every atom in the same inner site in the first and last frame of the period, so
    that no event crosses a period boundary and the classifier state is clean there) repeated beyond 2^15 frames: the event and jump
    tables must be the shifted copies of the period's tables."""
    core.gemdat_src_first()
    rng = np.random.default_rng(rep.seed + 404)
    P, A, S = 40, 2, 3
    world = gen.SiteWorld(rng, 'ortho', 'chol', N=32, n_sites=S, radius=1.0, inner_fraction=0.5)
    for _ in range(50):
        hist = gen.random_history(rng, P, A, S, p_stay=0.6, inner=True, exclusive=False)
        for a in range(A):
            hist[0][a] = [a % S, a % S]
            hist[1][a] = [a % S, a % S]
            hist[P - 1][a] = [a % S, a % S]
            hist[P - 2][a] = [a % S, a % S]
        small = world.trajectory(hist)
        tr = small.transitions_between_sites(world.structure, 'Li', site_radius=1.0, site_inner_fraction=0.5)
        if sites_drive.hist_of(tr.states, tr.inner_states) == hist and sites_drive.jumps_or_none(tr, 0) is not None:
            break
    # the period itself is judged by the trace spec
    recs, _ = sites_drive.record_pipeline(800000, world, hist, inner_fraction=0.5, ms=ms, ks=(), want={'Hist', 'Events', 'Jumps'})
    verdicts = core.validate_traces('TraceSites', recs, timeout=900)
    rep.add_trace_stats()
    for rec, (v, act) in zip(recs, verdicts):
        rep.evaluations += 1
        if v != 'ok':
            rep.violation({'kind': 'leg-B', 'clause': v, 'record': rec})
            return
    from gemdat import Trajectory
    K = -(-total_frames // P)
    coords = np.tile(np.asarray(small.positions), (K, 1, 1))
    big = Trajectory(species=small.species, coords=coords, lattice=small.get_lattice(), time_step=small.time_step, metadata=dict(small.metadata))
    trb = big.transitions_between_sites(world.structure, 'Li', site_radius=1.0, site_inner_fraction=0.5)
    ev_small = sites_drive.rows_of(tr.events, sites_drive.EV_COLS)
    exp_ev = sorted(r[:5] + [r[5] + k * P] for k in range(K) for r in ev_small)
    got_ev = sorted(sites_drive.rows_of(trb.events, sites_drive.EV_COLS))
    rep.evaluations += 1
    rep.nontrivial += 1
    if got_ev != exp_ev:
        bad = next((g for g, e in zip(got_ev, exp_ev) if g != e), None)
        rep.violation({'kind': 'scale', 'clause': 'events-of-repeated-history-are-not-the-repeated-events', 'frames': K * P, 'first_difference': bad})
    for m in ms:
        js = sites_drive.jumps_or_none(tr, m)
        jb = sites_drive.jumps_or_none(trb, m)
        small_rows = sites_drive.rows_of(js.data, sites_drive.J_COLS) if js is not None else []
        exp = sorted([r[0], r[1], r[2], r[3] + k * P, r[4] + k * P] for k in range(K) for r in small_rows)
        got = sorted(sites_drive.rows_of(jb.data, sites_drive.J_COLS)) if jb is not None else []
        rep.evaluations += 1
        rep.nontrivial += 1
        if got != exp:
            bad = next((g for g, e in zip(got, exp) if g != e), None)
            rep.violation({'kind': 'scale', 'clause': f'jumps-of-repeated-history-are-not-the-repeated-jumps m={m}', 'frames': K * P,
                           'expected_count': len(exp), 'observed_count': len(got), 'first_difference': bad})
    rep.extra['scale_by_tiling'] = {'frames': K * P, 'atoms': A, 'period': P, 'events': len(got_ev)}
