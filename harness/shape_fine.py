"""C17 on a grid far finer than TLC's 32-bit integers allow: sites a few 1e-7 (fractional) off a special position.

The spec operator that decides C17 (Shape.tla: a position belongs to the shape of operation o iff the squared minimum-image
distance, computed with the integer metric tensor, from o(site) to the position is below the threshold) is mirrored here with
Python integers, because on the /(48 * 2^17) grid squared distances reach 1e15.  The mirror is bound to the spec: `mirror_count`
is also run on every regular (/48 grid) case that TLC judged, and must agree with it (c17.run raises a machinery error otherwise).

Why this class of input: two symmetry operations that map a special position onto the SAME image map a site next to it onto two
DIFFERENT images a few 1e-6 Angstrom apart; whatever the code merges, memoises or keys by (rounded) image coordinates then
confuses them.  Positions are planted on the sphere surface of one image, just inside for one and just outside for the other."""
from __future__ import annotations

import math

import numpy as np

from . import gen

FINE = 2 ** 17


def centred(d, N):
    return [((x % N) - N if 2 * (x % N) > N else (x % N)) for x in d]


def q_of(G, d):
    return sum(d[i] * G[i][j] * d[j] for i in range(3) for j in range(3))


def image(op, site, N, unit):
    """o(site) on the /N grid; op translations are given on the /48 grid (unit = N / 48)."""
    W, w = op['W'], op['w']
    return [sum(W[i][j] * site[j] for j in range(3)) + w[i] * unit for i in range(3)]


def mirror_count(G, N, unit, ops, site, P, r2n2):
    """Number of (operation, position) pairs with |minimum image of (p - o(site))|^2 N^2 < r^2 N^2; R = 0 (radius below half a width)."""
    n = 0
    for op in ops:
        img = image(op, site, N, unit)
        for p in P:
            if q_of(G, centred([p[i] - img[i] for i in range(3)], N)) < r2n2:
                n += 1
    return n


def make_fine_case(rng, sg_name, fam, orient, ops, G):
    """Returns (n_collected, n_expected, max_distance, radius, meta) or None when no suitable site / position was found."""
    from pymatgen.core import Lattice, PeriodicSite
    from pymatgen.symmetry.groups import SpaceGroup
    from gemdat.shape import ShapeAnalyzer
    N = 48 * FINE
    M = gen.lattice_matrix(G, orient, rng)
    lattice = Lattice(M)
    w_perp, _ = gen.perp_widths(G)
    radius = float(rng.uniform(0.8, 0.4 * min(w_perp)))
    r2n2 = radius * radius * N * N
    for _ in range(60):
        site0 = [int(rng.choice([0, 24, 12, 36, int(rng.integers(0, 48))])) for _ in range(3)]
        imgs0 = [tuple(image(op, site0, 48, 1)) for op in ops]
        twins = [(a, b) for a in range(len(ops)) for b in range(a) if imgs0[a] == imgs0[b]]
        if not twins:
            continue
        eps = [int(x) for x in rng.choice([-2, -1, 1, 2], size=3)]
        site = [site0[i] * FINE + eps[i] for i in range(3)]
        split = [(a, b) for (a, b) in twins if image(ops[a], site, N, FINE) != image(ops[b], site, N, FINE)]
        if split:
            break
    else:
        return None
    Minv = np.linalg.inv(M)
    P = []
    planted = 0
    for (a, b) in split[:6]:
        A, B = np.array(image(ops[a], site, N, FINE)), np.array(image(ops[b], site, N, FINE))
        dcart = (B - A) / N @ M
        u = dcart / np.linalg.norm(dcart)
        for sign, which in ((-1, A), (1, B)):
            # on the line through the two images, one micro-Angstrom inside the sphere of one image (hence outside the other's)
            cart = which / N @ M + sign * u * (radius - min(1e-6, 0.3 * np.linalg.norm(dcart)))
            k = [int(x) for x in np.rint(cart @ Minv * N)]
            qa = q_of(G, centred([k[i] - int(A[i]) for i in range(3)], N))
            qb = q_of(G, centred([k[i] - int(B[i]) for i in range(3)], N))
            if (qa < r2n2) != (qb < r2n2) and min(abs(qa - r2n2), abs(qb - r2n2)) > 1e-9 * r2n2:
                P.append([x % N for x in k])
                planted += 1
    if not planted:
        return None
    lens = [math.sqrt(G[i][i]) for i in range(3)]
    for _ in range(int(rng.integers(2, 6))):          # ordinary positions around random images, well away from the surface
        op = ops[int(rng.integers(0, len(ops)))]
        img = image(op, site, N, FINE)
        m = [max(1, int(1.2 * radius * N / lens[i])) for i in range(3)]
        k = [int(img[i] + rng.integers(-m[i], m[i] + 1)) % N for i in range(3)]
        ok = True
        for o2 in ops:
            q = q_of(G, centred([k[i] - image(o2, site, N, FINE)[i] for i in range(3)], N))
            if abs(q - r2n2) < 1e-6 * r2n2:
                ok = False
        if ok:
            P.append(k)
    expected = mirror_count(G, N, FINE, ops, site, P, r2n2)
    psite = PeriodicSite('Si', np.array(site, dtype=float) / N, lattice, label='A')
    sa = ShapeAnalyzer(lattice=lattice, sites=[psite], spacegroup=SpaceGroup(sg_name))
    sh = sa.analyze_positions(np.array(P, dtype=float) / N, radius=radius)[0]
    coords = np.asarray(sh.coords, dtype=float).reshape(-1, 3)
    d = np.asarray(sh.distances(), dtype=float)
    meta = {'spacegroup': sg_name, 'family': fam, 'orientation': orient, 'radius': radius, 'site_off_special_position_by': [e / N for e in eps],
            'site0_on_48_grid': site0, 'positions': len(P), 'planted_on_the_surface': planted, 'operation_pairs_split': len(split)}
    return len(coords), expected, (float(d.max()) if len(d) else 0.0), radius, meta


def ops_of(sg_name, G):
    """Integer operations of a space group in the fractional basis (translations on the /48 grid), checked to be isometries of G."""
    from pymatgen.symmetry.groups import SpaceGroup
    Gm = np.array(G)
    ops = []
    for op in SpaceGroup(sg_name).symmetry_ops:
        W = np.rint(op.rotation_matrix).astype(int)
        w = op.translation_vector * 48
        wi = np.rint(w).astype(int)
        if np.abs(op.rotation_matrix - W).max() > 1e-9 or np.abs(w - wi).max() > 1e-6 or not np.array_equal(W.T @ Gm @ W, Gm):
            raise ValueError(f'{sg_name}: operation not on the grid / not an isometry of the cell family')
        ops.append({'W': W.tolist(), 'w': wi.tolist()})
    return ops
