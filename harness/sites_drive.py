"""Drive the public site/jump API of gemdat and record one trace record per call (for TraceSites.tla)."""
from __future__ import annotations

import itertools

import numpy as np

from . import gen
from .gen import NOSITE

OFFGRID = -999999


def to_int(x, scale=1.0, tol=1e-6):
    """alpha for scalars: x*scale must be an integer (residual < tol*max(1,|v|)); else OFFGRID."""
    v = float(x) * scale
    if not np.isfinite(v):
        return OFFGRID
    r = round(v)
    if abs(v - r) > tol * max(1.0, abs(v)) or abs(r) >= 2**31 - 1:
        return OFFGRID
    return int(r)


def hist_of(states, inner):
    return [[[int(states[t, a]), int(inner[t, a])] for a in range(states.shape[1])] for t in range(states.shape[0])]


EV_COLS = ['atom index', 'start site', 'destination site', 'start inner site', 'destination inner site', 'time']
J_COLS = ['atom index', 'start site', 'destination site', 'start time', 'stop time']


def rows_of(df, cols):
    if df is None or len(df) == 0:
        return []
    return [[int(v) for v in row] for row in df[cols].to_numpy()]


_door = [0]


def transitions(traj, structure, floating, **kw):
    """The site analysis through one of its two public doors, alternately: Trajectory.transitions_between_sites (wrapper, positional
    arguments) and the classmethod Transitions.from_trajectory (keywords).  Both promise the same result."""
    from gemdat import Transitions
    _door[0] += 1
    if _door[0] % 2:
        return traj.transitions_between_sites(structure, floating, **kw)
    return Transitions.from_trajectory(trajectory=traj, sites=structure, floating_specie=floating, **kw)


def jumps_or_none(transitions, m):
    try:
        return transitions.jumps(minimal_residence=m)
    except ValueError as e:
        if 'No jumps found' in str(e):
            return None
        raise


def label_codes(labels):
    u = sorted(set(labels))
    return {lab: i for i, lab in enumerate(u)}, [u.index(x) for x in labels]


def find_offsets(whole_rows, parts_rows, T):
    """Witness search: non-decreasing offsets o_i >= 0 with rows_i + o_i a subset of whole (exhaustive)."""
    whole = {tuple(r) for r in whole_rows}
    cands = []
    for rows in parts_rows:
        if not rows:
            cands.append(None)
            continue
        c = [o for o in range(0, T + 2) if all(tuple(r[:5]) + (r[5] + o,) in whole for r in rows)]
        cands.append(c)
    # exhaustive search over non-empty parts for a non-decreasing choice that covers whole exactly once
    idx = [i for i, c in enumerate(cands) if c is not None]
    best = None

    def rec(j, lo, used, acc):
        nonlocal best
        if best is not None:
            return
        if j == len(idx):
            if len(used) == len(whole):
                best = list(acc)
            return
        i = idx[j]
        for o in cands[i]:
            if o < lo:
                continue
            shifted = {tuple(r[:5]) + (r[5] + o,) for r in parts_rows[i]}
            if shifted & used:
                continue
            rec(j + 1, o, used | shifted, acc + [o])
    rec(0, 0, frozenset(), [])
    out = []
    if best is None:
        return [-1] * len(parts_rows)
    it = iter(best)
    last = 0
    for c in cands:
        if c is None:
            out.append(last)
        else:
            last = next(it)
            out.append(last)
    return out


def record_pipeline(b, world, intended, *, inner_fraction, ms=(0,), ks=(), radius=None, want=None,
                    traj=None, floating='Li', overlap=False):
    """Run the pipeline on the real code; returns list of records (dicts) for TraceSites."""
    recs = []
    want = want or {'Hist', 'Events', 'Counts', 'Prev', 'Next', 'Jumps', 'Mono', 'Matrix', 'Counter', 'Edges', 'Occ',
                    'AtomLoc', 'OccType', 'EdgeCounts', 'JumpDiff', 'Split', 'Rates', 'TrajSplit'}

    def add(act, **kw):
        if act in want:
            d = {'b': b, 'act': act}
            d.update(kw)
            recs.append(d)

    if traj is None:
        traj = world.trajectory(intended)
    radius = world.radius if radius is None else radius
    gen.perturb(traj, world.rng)
    tr = transitions(traj, world.structure, floating, site_radius=radius, site_inner_fraction=inner_fraction)
    H = hist_of(tr.states, tr.inner_states)
    T, A, S = len(H), len(H[0]), len(world.structure)
    if intended is not None:
        add('Hist', hist=H, intended=intended)
    elif overlap:
        add('Hist', hist=H, overlap=True)
    else:
        add('Hist', hist=H)
    ev_rows = rows_of(tr.events, EV_COLS)
    add('Events', rows=ev_rows)
    add('Counts', n_events=int(tr.n_events), n_states=int(tr.n_states), n_floating=int(tr.n_floating), n_sites=int(tr.n_sites), S=S)
    add('Prev', arr=np.asarray(tr.states_prev()).astype(int).tolist())
    add('Next', arr=np.asarray(tr.states_next()).astype(int).tolist())
    add('Matrix', kind='trans', m=0, S=S, M=np.asarray(tr.matrix()).astype(int).tolist(), njumps=0)
    codes, lab_seq = label_codes(list(world.structure.labels))
    # occupancy (pymatgen rejects occupancy > 1: API contract, skipped then)
    try:
        occ = tr.occupancy()
        add('Occ', num=[to_int(site.species.num_atoms, T) for site in occ])
        al = tr.atom_locations()
        add('AtomLoc', labels=lab_seq, byLabel=[[codes[k], to_int(v, T * A)] for k, v in sorted(al.items())])
        ot = tr.occupancy_by_site_type()
        nlab = {k: list(world.structure.labels).count(k) for k in ot}
        add('OccType', labels=lab_seq, byLabel=[[codes[k], to_int(v, T * nlab[k])] for k, v in sorted(ot.items())])
    except ValueError as e:
        if 'occupanc' not in str(e).lower():
            raise
    jrows_by_m = {}
    for m in ms:
        j = jumps_or_none(tr, m)
        jr = rows_of(j.data, J_COLS) if j is not None else []
        jrows_by_m[m] = jr
        add('Jumps', m=m, rows=jr)
        if j is None:
            continue
        add('Matrix', kind='jumps', m=m, S=S, M=np.asarray(j.matrix()).astype(int).tolist(), njumps=int(j.n_jumps))
        cnt = j.counter()
        add('Counter', m=m, labels=lab_seq, counts=[[codes[a], codes[c], int(n)] for (a, c), n in sorted(cnt.items())])
        if world.rng.random() < 0.5:
            # the documented hook: a user-supplied conversion method; here the stock one with the columns of its table in
            # another order and an extra leading column (a DataFrame is addressed by column NAME)
            from gemdat.jumps import Jumps, _generic_transitions_to_jumps
            order = [str(c) for c in world.rng.permutation(J_COLS)]

            def conv(transitions, *, minimal_residence=0, _order=order):
                df = _generic_transitions_to_jumps(transitions, minimal_residence=minimal_residence)
                df = df[_order].copy()
                df.insert(0, 'note', 7)
                return df
            j2 = Jumps(tr, conversion_method=conv, minimal_residence=m)
            add('Matrix', kind='jumps', m=m, S=S, M=np.asarray(j2.matrix()).astype(int).tolist(), njumps=int(j2.n_jumps), when='custom-table')
            cnt2 = j2.counter()
            add('Counter', m=m, labels=lab_seq, counts=[[codes[a], codes[c], int(n)] for (a, c), n in sorted(cnt2.items())], when='custom-table')
        if 'Edges' in want:
            g = j.to_graph()
            add('Edges', m=m, edges=[[int(u), int(v)] for u, v in g.edges])
            # beyond C05: the activation energy on an edge encodes the jump count (alpha inverts the formula with scipy constants)
            from scipy.constants import Boltzmann, elementary_charge
            import math
            nu = float(traj.filter(floating).metrics().attempt_frequency()[0])
            kT = Boltzmann * traj.metadata['temperature']
            occ = [site.species.num_atoms for site in tr.occupancy()] if 'Occ' in want or True else None
            ec = []
            for u, v, dct in g.edges(data=True):
                n_rec = math.exp(-dct['e_act'] * elementary_charge / kT) * nu * occ[u] * (T * traj.time_step)
                ec.append([int(u), int(v), to_int(n_rec, 1.0, tol=1e-6)])
            add('EdgeCounts', m=m, counts=ec)
        if 'JumpDiff' in want:
            d = 3
            val = float(j.jump_diffusivity(d))
            from scipy.constants import angstrom
            pref = angstrom ** 2 / (2 * d * A * (T * traj.time_step))
            add('JumpDiff', m=m, num=to_int(val / pref, world.N ** 2, tol=1e-6), sites=world.sites_k, G=world.G,
                N=world.N, R=world.R)
    msorted = sorted(ms)
    for m1, m2 in zip(msorted, msorted[1:]):
        add('Mono', m=m1, m2=m2, rows=jrows_by_m[m1], rows2=jrows_by_m[m2])
    for k in ks:
        if k > len(ev_rows) or k < 1:
            continue
        parts = tr.split(k)
        prow = [rows_of(p.events, EV_COLS) for p in parts]
        offs = find_offsets(ev_rows, prow, T)
        for m in ms:
            j = jumps_or_none(tr, m)
            # per-part jump tables through the public Jumps.split (which must forward the residence setting);
            # it raises when some part has no jump at all -- then fall back to analysing each part separately
            part_rows = None
            if j is not None:
                try:
                    part_rows = [rows_of(pj.data, J_COLS) for pj in j.split(k)]
                except ValueError as e:
                    if 'No jumps found' not in str(e):
                        raise
            if part_rows is None:
                part_rows = []
                for p in parts:
                    pj = jumps_or_none(p, m)
                    part_rows.append(rows_of(pj.data, J_COLS) if pj is not None else [])
            P = []
            for p, rows, o, jr in zip(parts, prow, offs, part_rows):
                P.append({'hist': hist_of(p.states, p.inner_states) if len(p.states) else [], 'rows': rows, 'offset': int(o), 'jumps': jr,
                          'tframes': [len(p.trajectory), len(p.diff_trajectory)]})
            add('Split', k=k, m=m, parts=P, tframes=[len(tr.trajectory), len(tr.diff_trajectory)])
            if 'Rates' in want and j is not None and k >= 2 and all(len(x['jumps']) > 0 for x in P):
                df = j.rates(k)
                denom = A * (T * traj.time_step) / k
                sums = []
                for (la, lb), row in df.iterrows():
                    s1 = to_int(row['rates'] * denom * k)
                    s2 = to_int((row['std'] * denom) ** 2 * (k - 1) * k, tol=1e-5)
                    sums.append([codes[la], codes[lb], s1, s2])
                add('Rates', k=k, labels=lab_seq, sums=sums)
    # the same questions again, after thresholded graph queries, rates, splits: answers must not have changed
    for m in ms:
        j = jumps_or_none(tr, m)
        if j is None or 'Edges' not in want:
            continue
        for kwg in ({'max_e_act': 0.05}, {'min_e_act': 0.3}, {'min_e_act': 0.1, 'max_e_act': 0.2}):
            j.to_graph(**kwg)
        j2 = jumps_or_none(tr, m)          # a second Jumps object of the same transitions must agree as well
        for jj, tag in ((j, 'again'), (j2, 'second-object')):
            g = jj.to_graph()
            add('Edges', m=m, edges=[[int(u), int(v)] for u, v in g.edges], when=tag)
            add('Matrix', kind='jumps', m=m, S=S, M=np.asarray(jj.matrix()).astype(int).tolist(), njumps=int(jj.n_jumps), when=tag)
            cnt = jj.counter()
            add('Counter', m=m, labels=lab_seq, counts=[[codes[a], codes[c], int(n)] for (a, c), n in sorted(cnt.items())], when=tag)
    # nested split: a part is itself split again (its event table no longer carries the pristine row index)
    if 'Split' in want and ks and len(ev_rows) >= 4:
        k1 = 2
        try:
            outer = tr.split(k1)
        except ValueError:
            outer = []
        for part in outer:
            prow_whole = rows_of(part.events, EV_COLS)
            for k2 in (2, 3):
                if len(prow_whole) < k2 or len(part.states) < k2 + 1:
                    continue
                sub = part.split(k2)
                srows = [rows_of(p.events, EV_COLS) for p in sub]
                offs = find_offsets(prow_whole, srows, len(part.states))
                m = ms[0] if ms else 0
                P = []
                for p, rows, o in zip(sub, srows, offs):
                    pj = jumps_or_none(p, m)
                    P.append({'hist': hist_of(p.states, p.inner_states) if len(p.states) else [], 'rows': rows, 'offset': int(o),
                              'jumps': rows_of(pj.data, J_COLS) if pj is not None else []})
                add('Split', k=k2, m=m, parts=P, whole=prow_whole, whist=hist_of(part.states, part.inner_states), nested=True)
    return recs, tr


def traj_split_record(b, traj, k, equal):
    """Trajectory.split: find the frame ranges of the parts in the source (witness) by matching positions."""
    parts = traj.split(k, equal_parts=equal)       # first: the source is split in whatever internal representation it is in
    src = np.array(traj.positions)
    ranges = []
    lo = 0
    for p in parts:
        pp = np.array(p.positions)
        n = len(pp)
        found = None
        prev_stop = ranges[-1][1] if ranges and ranges[-1][1] >= 0 else 0
        for s in list(range(prev_stop, len(src) - n + 1)) + list(range(lo, prev_stop)):
            if 0 <= s <= len(src) - n and np.array_equal(src[s:s + n], pp):
                found = s
                break
        if found is None:
            ranges.append([-1, -1])
        else:
            ranges.append([found, found + n])
            lo = found + 1
    return {'b': b, 'act': 'TrajSplit', 'k': k, 'T': len(src), 'equal': bool(equal), 'ranges': ranges}
