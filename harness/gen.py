"""Seeded generators on the exact lattice: cells (integer metric tensors), sites, histories."""
from __future__ import annotations

import itertools
import math

import numpy as np

NOSITE = -1

# integer metric tensors G (Angstrom^2); rows/cols = a, b, c
FAMILIES = {
    'cubic': [[100, 0, 0], [0, 100, 0], [0, 0, 100]],
    'ortho': [[64, 0, 0], [0, 100, 0], [0, 0, 144]],
    'hex': [[64, -32, 0], [-32, 64, 0], [0, 0, 100]],
    'mono': [[64, 0, -20], [0, 81, 0], [-20, 0, 100]],
    'tric': [[64, 16, 12], [16, 81, -18], [12, -18, 100]],
    'tric2': [[49, 21, 14], [21, 64, 24], [14, 24, 81]],
    # strongly sheared: a = (16,0,0), b = (8,6,0) (gamma = 36.9 deg), c = (0,0,14); the component-wise rounded image is often not
    # the nearest one here
    'shear': [[256, 128, 0], [128, 100, 0], [0, 0, 196]],
}
ORTHO_FAMILIES = ('cubic', 'ortho')


def chol_matrix(G):
    """Lattice matrix (rows = a, b, c) in lower-triangular form with M M^T = G."""
    return np.linalg.cholesky(np.array(G, dtype=float))


def random_rotation(rng: np.random.Generator):
    q = rng.normal(size=4)
    q /= np.linalg.norm(q)
    a, b, c, d = q
    return np.array([[a*a+b*b-c*c-d*d, 2*(b*c-a*d), 2*(b*d+a*c)],
                     [2*(b*c+a*d), a*a-b*b+c*c-d*d, 2*(c*d-a*b)],
                     [2*(b*d-a*c), 2*(c*d+a*b), a*a-b*b-c*c+d*d]])


def lattice_matrix(G, orientation: str, rng: np.random.Generator | None = None):
    """Realise the metric tensor G as a lattice matrix (rows = lattice vectors).

    orientation: 'chol' (a along x, b in xy-plane: MDAnalysis/LAMMPS convention),
                 'pmg' (pymatgen Lattice.from_parameters convention: c along z),
                 'rot' (chol times a random proper rotation),
                 'int' (integer matrix when G is diagonal with square entries, else chol)
    """
    from pymatgen.core import Lattice
    M = chol_matrix(G)
    if orientation == 'chol':
        return M
    if orientation == 'pmg':
        a, b, c = (math.sqrt(G[i][i]) for i in range(3))
        al = math.degrees(math.acos(G[1][2] / (b * c)))
        be = math.degrees(math.acos(G[0][2] / (a * c)))
        ga = math.degrees(math.acos(G[0][1] / (a * b)))
        return np.array(Lattice.from_parameters(a, b, c, al, be, ga).matrix)
    if orientation == 'rot':
        assert rng is not None
        return M @ random_rotation(rng).T
    raise ValueError(orientation)


def perp_widths(G):
    """Perpendicular widths of the cell (distance between opposite faces)."""
    Gm = np.array(G, dtype=float)
    vol = math.sqrt(np.linalg.det(Gm))
    Ginv = np.linalg.inv(Gm)
    return [1.0 / math.sqrt(Ginv[i, i]) for i in range(3)], vol


_RANGE_CACHE = {}


def _needed_range(G, N=24, big=4):
    """Largest |shift| used by a nearest image of any centred grid vector (brute force over {-big..big}^3 shifts)."""
    Gm = np.array(G)
    shifts = np.array(list(itertools.product(range(-big, big + 1), repeat=3)))
    ks = np.array(list(itertools.product(range(-N // 2, N // 2 + 1), repeat=3)))
    worst = 0
    for i in range(0, len(ks), 512):
        v = ks[i:i + 512, None, :] + N * shifts[None, :, :]
        q = np.einsum('abi,ij,abj->ab', v, Gm, v)
        mins = q == q.min(axis=1, keepdims=True)
        size = np.abs(shifts).max(axis=1)[None, :]
        worst = max(worst, int(np.where(mins, size, 99).min(axis=1).max()))
    return worst


def image_range(G) -> int:
    """R such that the minimum-image representative of any centred vector lies in {-R..R}^3 shifts.

    The analytic bound ceil((|a|+|b|+|c|) / (2 w_min)) is safe but loose for sheared cells; when it exceeds 2 the range actually
    needed is measured by brute force on a /24 grid (shifts up to 4) and one more shell is added as a safety margin."""
    key = tuple(map(tuple, G))
    if key in _RANGE_CACHE:
        return _RANGE_CACHE[key]
    w, _ = perp_widths(G)
    lens = [math.sqrt(G[i][i]) for i in range(3)]
    R = max(1, math.ceil(sum(lens) / (2 * min(w)) - 1e-9))
    if R > 2:
        R = min(R, _needed_range(G) + 1)
    _RANGE_CACHE[key] = R
    return R


def norm_sq(G, k):
    return sum(k[i] * G[i][j] * k[j] for i in range(3) for j in range(3))


def min_image_sq(G, k, N, R=None):
    """Exact integer squared min-image length of grid vector k (units 1/N): returns k'^T G k' (int)."""
    if R is None:
        R = image_range(G)
    c = [((x % N) - N if 2 * (x % N) > N else (x % N)) for x in k]
    best = None
    for n in itertools.product(range(-R, R + 1), repeat=3):
        v = [c[i] + N * n[i] for i in range(3)]
        q = norm_sq(G, v)
        if best is None or q < best:
            best = q
    return best


def min_image_sq_pbc(G, k, N, R, pbc):
    """As min_image_sq for a cell that is periodic only along the axes with pbc[i] True; k is the plain difference of two
    coordinates inside the cell."""
    c = [((x % N) - N if 2 * (x % N) > N else (x % N)) for x in k]
    rng_ = [range(-R, R + 1) if pbc[i] else [None] for i in range(3)]
    best = None
    for n in itertools.product(*rng_):
        v = [(c[i] + N * n[i]) if pbc[i] else k[i] for i in range(3)]
        q = norm_sq(G, v)
        if best is None or q < best:
            best = q
    return best


def pick_sites(rng, G, N, n_sites, min_sep):
    """n_sites grid points (ints in 0..N-1, units 1/N) pairwise at least min_sep Angstrom apart (min image)."""
    R = image_range(G)
    thr = min_sep * min_sep * N * N
    for _ in range(2000):
        pts = []
        tries = 0
        while len(pts) < n_sites and tries < 400:
            tries += 1
            p = [int(x) for x in rng.integers(0, N, size=3)]
            if all(min_image_sq(G, [p[i] - q[i] for i in range(3)], N, R) >= thr for q in pts):
                pts.append(p)
        if len(pts) == n_sites:
            return pts
    raise RuntimeError('cannot place sites')


def far_points(rng, G, N, sites, min_dist, count=6):
    """Grid points at least min_dist Angstrom from every site."""
    R = image_range(G)
    thr = min_dist * min_dist * N * N
    out = []
    tries = 0
    while len(out) < count and tries < 5000:
        tries += 1
        p = [int(x) for x in rng.integers(0, N, size=3)]
        if all(min_image_sq(G, [p[i] - q[i] for i in range(3)], N, R) >= thr for q in sites):
            out.append(p)
    if not out:
        raise RuntimeError('no far point')
    return out


def random_history(rng, T, A, S, p_stay=0.6, inner=True, exclusive=True):
    """Random site history hist[t][a] = [outer, inner]; at most one atom per site per frame if exclusive."""
    hist = []
    cur = [[NOSITE, NOSITE] for _ in range(A)]
    # initial
    for a in range(A):
        cur[a] = _random_state(rng, S, inner)
    for t in range(T):
        if t > 0:
            for a in range(A):
                if rng.random() > p_stay:
                    r = rng.random()
                    o, i = cur[a]
                    if inner and o != NOSITE and r < 0.35:
                        cur[a] = [o, NOSITE if i != NOSITE else o]    # inner-only change
                    else:
                        cur[a] = _random_state(rng, S, inner)
        if exclusive:
            seen = set()
            for a in range(A):
                if cur[a][0] != NOSITE and cur[a][0] in seen:
                    cur[a] = [NOSITE, NOSITE]
                seen.add(cur[a][0])
        hist.append([list(x) for x in cur])
    return hist


def _random_state(rng, S, inner):
    r = rng.random()
    if r < 0.3:
        return [NOSITE, NOSITE]
    s = int(rng.integers(0, S))
    if inner and rng.random() < 0.4:
        return [s, NOSITE]
    return [s, s]


class SiteWorld:
    """A cell + sites + radius in which a site history can be realised as coordinates."""

    def __init__(self, rng, family='cubic', orientation='chol', N=32, n_sites=3, radius=1.0, inner_fraction=0.5,
                 labels=None, species='Li', site_species='Li'):
        from pymatgen.core import Lattice, Structure
        self.rng = rng
        self.family = family
        self.G = FAMILIES[family]
        self.N = N
        self.R = image_range(self.G)
        self.M = lattice_matrix(self.G, orientation, rng)
        self.lattice = Lattice(self.M)
        self.radius = radius
        self.inner_fraction = inner_fraction
        self.sites_k = pick_sites(rng, self.G, N, n_sites, 2 * radius + 0.6)
        self.far_k = far_points(rng, self.G, N, self.sites_k, radius + 0.8)
        self.labels = labels or [f'L{i % 2}' for i in range(n_sites)]
        self.species = species
        # the sites may come with a cell of their own (scaled copy of the simulation cell): only their fractional coordinates count
        self.site_cell_scale = float(rng.choice([1.0, 1.0, 1.15, 0.9]))
        self.structure = Structure(lattice=Lattice(self.M * self.site_cell_scale), species=[site_species] * n_sites,
                                   coords=np.array(self.sites_k) / N, labels=self.labels)
        self.Minv = np.linalg.inv(self.M)

    def _offset_frac(self, length):
        d = self.rng.normal(size=3)
        d *= length / np.linalg.norm(d)
        return d @ self.Minv

    def coords_for(self, hist):
        """Fractional coordinates [T, A, 3] realising hist[t][a] = [outer, inner]."""
        T, A = len(hist), len(hist[0])
        out = np.zeros((T, A, 3))
        r = self.radius
        for t in range(T):
            for a in range(A):
                o, i = hist[t][a]
                jitter = self._offset_frac(0.01 + 0.02 * self.rng.random())
                if o == NOSITE:
                    base = np.array(self.far_k[int(self.rng.integers(0, len(self.far_k)))]) / self.N
                    out[t, a] = base + jitter
                elif i == NOSITE and self.inner_fraction < 1:
                    f = (self.inner_fraction + 1) / 2
                    out[t, a] = np.array(self.sites_k[o]) / self.N + self._offset_frac(f * r) + jitter
                else:
                    out[t, a] = np.array(self.sites_k[o]) / self.N + jitter
        return out

    def trajectory(self, hist, extra_species=None, time_step=1e-15, temperature=300.0):
        """gemdat Trajectory whose floating atoms realise hist (plus optional static framework atoms)."""
        from gemdat import Trajectory
        coords = self.coords_for(hist)
        species = [self.species] * coords.shape[1]
        if extra_species:
            T = coords.shape[0]
            for sp, frac in extra_species:
                col = np.tile(np.array(frac, dtype=float)[None, None, :], (T, 1, 1))
                col = col + np.array([self._offset_frac(0.01) for _ in range(T)])[:, None, :]
                coords = np.concatenate([coords, col], axis=1)
                species.append(sp)
        from pymatgen.core import Species
        species = [Species(x) if isinstance(x, str) else x for x in species]
        if not extra_species and self.rng.random() < 0.5:
            # atoms of another species stored BEFORE and BETWEEN the floating ones (static, far from every site): indices reported by
            # the site analysis count the floating atoms only
            A = coords.shape[1]
            n_other = int(self.rng.integers(1, 3))
            far = np.array(self.far_k[int(self.rng.integers(0, len(self.far_k)))]) / self.N
            order = ['f'] * A + ['o'] * n_other
            order[0], order[-1] = order[-1], order[0]          # an 'o' first
            self.rng.shuffle(order[1:])
            cols, sp2, fi = [], [], 0
            for tag in order:
                if tag == 'f':
                    cols.append(coords[:, fi, :])
                    sp2.append(species[fi])
                    fi += 1
                else:
                    cols.append(np.tile(far[None, :], (coords.shape[0], 1)) + np.array([self._offset_frac(0.01) for _ in range(coords.shape[0])]))
                    sp2.append(Species('O' if self.species != 'O' else 'S'))
            coords, species = np.stack(cols, axis=1), sp2
        return Trajectory(species=species, coords=coords, lattice=self.lattice, time_step=time_step,
                          metadata={'temperature': temperature})


def grid_world(rng, n=11, spacing=3, sub=4, radius=1.0, inner_fraction=0.5, orientation='chol'):
    """A SiteWorld with n^3 sites on a regular grid in a cubic cell (n * spacing Angstrom): site indices far beyond the handful of
    the other generators (n = 11: 1331 sites), for whatever the code keys, packs or counts by site index."""
    from pymatgen.core import Lattice, Structure
    w = SiteWorld.__new__(SiteWorld)
    L = spacing * n
    w.rng, w.family, w.N = rng, f'cubic{L}', sub * n
    w.G = [[L * L, 0, 0], [0, L * L, 0], [0, 0, L * L]]
    w.R = 1
    w.M = lattice_matrix(w.G, orientation, rng)
    w.lattice = Lattice(w.M)
    w.radius, w.inner_fraction = radius, inner_fraction
    w.sites_k = [[sub * i, sub * j, sub * k] for i in range(n) for j in range(n) for k in range(n)]
    w.far_k = [[sub * i + sub // 2, sub * j + sub // 2, sub * k + sub // 2] for i, j, k in rng.integers(0, n, size=(8, 3))]
    w.labels = [f'L{i % 2}' for i in range(n ** 3)]
    w.species = 'Li'
    w.structure = Structure(lattice=w.lattice, species=['Li'] * n ** 3, coords=np.array(w.sites_k) / w.N, labels=w.labels)
    w.Minv = np.linalg.inv(w.M)
    return w


def perturb(traj, rng, p=0.6):
    """Read-only queries that switch the internal representation of a Trajectory (positions <-> displacements) or derive
    objects from it.  By C15 none of them may change what any later analysis returns, so drivers sprinkle them between the
    construction of a trajectory and the call under test."""
    if rng.random() > p:
        return traj
    for _ in range(int(rng.integers(1, 4))):
        k = int(rng.integers(0, 10))
        if k == 7:
            traj.apply_drift_correction()                 # returns a new trajectory; the source is not its business
        elif k == 8:
            traj.drift(), traj.center_of_mass()
        elif k == 9 and len(traj) > 3:
            traj.split(2), list(traj)[0]
        elif k == 0:
            traj.positions
        elif k == 1:
            traj.displacements
        elif k == 2:
            traj.mean_squared_displacement()
        elif k == 3:
            traj.distances_from_base_position()
        elif k == 4 and len(traj) > 2:
            traj[1:len(traj) - 1]
        elif k == 5:
            traj.filter(traj.species[0].symbol)
        elif k == 6:
            traj.cumulative_displacements
    return traj
