"""Harness core: TLC runner, trace batches, verdict handling, evidence, known findings.

Exit status convention (used by check.py):
  0 property held on everything explored (KNOWN-FINDING lines allowed)
  1 violation (a line `VIOLATION property=<id> replay=<path>` was printed)
  2 machinery failure (TLC crash / timeout / parse problem) -- never a VIOLATION line
"""
from __future__ import annotations

import json
import os
import re
import shutil
import subprocess
import sys
import tempfile
import time
from concurrent.futures import ThreadPoolExecutor
from pathlib import Path

VERIF = Path(__file__).resolve().parents[1]
SPEC = VERIF / 'spec'
EVID = VERIF / 'evidence'
REPLAYS = VERIF / 'replays'
SCRATCH_ROOT = Path(os.environ.get('VERIF_SCRATCH', '/var/tmp'))
TLA_JAR = '/opt/veriftools/tla/tla2tools.jar:/opt/veriftools/tla/CommunityModules-deps.jar'
NCPU = os.cpu_count() or 4


class Machinery(Exception):
    """Something in the checking machinery itself failed (exit 2)."""


def scratch(prefix='gv-') -> Path:
    SCRATCH_ROOT.mkdir(parents=True, exist_ok=True)
    return Path(tempfile.mkdtemp(prefix=prefix, dir=SCRATCH_ROOT))


# ----------------------------------------------------------------------------
# TLC
# ----------------------------------------------------------------------------

class TlcResult:
    def __init__(self, out: str, rc: int, wall: float):
        self.out = out
        self.rc = rc
        self.wall = wall
        m = re.search(r'(\d+) states generated, (\d+) distinct states found', out)
        self.generated = int(m.group(1)) if m else 0
        self.distinct = int(m.group(2)) if m else 0
        m = re.search(r'depth of the complete state graph search is (\d+)', out)
        self.depth = int(m.group(1)) if m else 0
        self.violated = re.findall(r'Invariant (\S+) is violated', out) + \
            re.findall(r'Action property (\S+) is violated', out)
        if 'Temporal properties were violated' in out:
            self.violated.append('temporal')
        self.completed = 'Model checking completed. No error has been found.' in out
        self.error_lines = [ln for ln in out.splitlines() if ln.startswith('Error:')]

    @property
    def ok(self):
        return self.completed and not self.violated and not self.error_lines

    def printed(self):
        """Lines produced by PrintT (everything between 'Computing initial states' and the summary)."""
        return [ln for ln in self.out.splitlines() if ln.startswith('<<') or ln.startswith('"')]

    def json_prints(self):
        res = []
        for ln in self.out.splitlines():
            if ln.startswith('"{') or ln.startswith('"['):
                res.append(json.loads(json.loads(ln)))
        return res

    def counterexample(self):
        i = self.out.find('Error:')
        return self.out[i:i + 6000] if i >= 0 else ''


def run_tlc(module: str, cfg: str | Path | None = None, *, workers: int | str = 1, env: dict | None = None,
            timeout: int = 900, simulate: str | None = None, depth: int | None = None,
            seed: int | None = None, extra: list[str] | None = None, coverage: bool = False,
            dfs: bool = False) -> TlcResult:
    """Run TLC on spec/<module>.tla with the given cfg (path, or text starting with a keyword)."""
    tmp = scratch('tlc-')
    try:
        if cfg is None:
            cfgpath = SPEC / f'{module}.cfg'
        elif isinstance(cfg, Path) or (isinstance(cfg, str) and '\n' not in cfg and cfg.endswith('.cfg')):
            cfgpath = Path(cfg) if os.path.isabs(str(cfg)) else SPEC / cfg
        else:
            cfgpath = tmp / f'{module}.cfg'
            cfgpath.write_text(cfg)
        # a small young generation avoids first-touch page faults of a huge fresh heap (measured: 78 s -> 24 s)
        nw = workers if isinstance(workers, int) else NCPU
        jopts = ['-XX:+UseParallelGC', '-Xss16m', '-Xmx6g' if nw > 1 else '-Xmx3g', '-Xmn512m' if nw > 1 else '-Xmn192m',
                 f'-XX:ParallelGCThreads={max(2, min(8, nw))}', f'-Djava.io.tmpdir={tmp}']      # TLC's own temporaries go with the scratch dir
        if dfs:
            jopts.append('-Dtlc2.tool.queue.IStateQueue=StateDeque')
        cmd = ['java', *jopts, '-cp', TLA_JAR, 'tlc2.TLC', '-workers', str(workers),
               '-metadir', str(tmp / 'meta'), '-noGenerateSpecTE', '-config', str(cfgpath)]
        if simulate is not None:
            cmd += ['-simulate', simulate]
        if depth is not None:
            cmd += ['-depth', str(depth)]
        if seed is not None:
            cmd += ['-seed', str(seed)]
        if coverage:
            cmd += ['-coverage', '1']
        if extra:
            cmd += extra
        cmd.append(str(SPEC / f'{module}.tla'))
        e = dict(os.environ)
        e.pop('JAVA_TOOL_OPTIONS', None)
        if env:
            e.update({k: str(v) for k, v in env.items()})
        t0 = time.time()
        try:
            p = subprocess.run(cmd, cwd=str(tmp), env=e, stdout=subprocess.PIPE, stderr=subprocess.STDOUT,
                               text=True, timeout=timeout)
        except subprocess.TimeoutExpired as ex:
            raise Machinery(f'TLC timeout after {timeout}s on {module}') from ex
        return TlcResult(p.stdout, p.returncode, time.time() - t0)
    finally:
        shutil.rmtree(tmp, ignore_errors=True)


def model_check(module: str, cfg=None, *, expect_violation: str | None = None, **kw) -> TlcResult:
    """Leg M. Raises Machinery if TLC itself failed. Returns result; caller inspects .violated."""
    kw.setdefault('workers', min(NCPU, 16))
    r = run_tlc(module, cfg, **kw)
    if not r.completed and not r.violated:
        raise Machinery(f'TLC did not complete on {module}:\n{r.out[-3000:]}')
    if expect_violation is not None and expect_violation not in r.violated:
        raise Machinery(f'negative control {module}: expected violation of {expect_violation}, got {r.violated}')
    return r


VERDICT_RE = re.compile(r'^<<"V", (\d+), "([^"]*)"(?:, "([^"]*)")?>>$')


def validate_traces(module: str, records: list[dict], *, shards: int | None = None, timeout: int = 900,
                    cfg: str | None = None, env: dict | None = None) -> list[tuple[str, str]]:
    """Leg B. Write records as ndjson, let the trace spec `module` judge each one.

    The trace spec prints one line <<"V", l, verdict, detail>> per record (l = 1-based index in its shard)
    and must consume every record (POSTCONDITION). Records sharing key 'b' (behaviour id) are kept in the
    same shard, in order. Returns list of (verdict, detail) aligned with `records`.
    """
    if not records:
        return []
    if shards is None:
        shards = max(1, min(NCPU, len(records) // 40 + 1))
    # group by behaviour id so that stateful traces are not torn apart
    groups: list[list[int]] = []
    last_b = object()
    for i, r in enumerate(records):
        b = r.get('b', i)
        if b != last_b:
            groups.append([])
            last_b = b
        groups[-1].append(i)
    buckets: list[list[int]] = [[] for _ in range(shards)]
    sizes = [0] * shards
    for g in groups:
        k = sizes.index(min(sizes))
        buckets[k].extend(g)
        sizes[k] += len(g)
    buckets = [b for b in buckets if b]
    tmp = scratch('trace-')
    try:
        def one(k):
            # Verdicts are total by construction of the trace specs; should the evaluation of one record nevertheless fail (a recorded
            # value so malformed that an operator is undefined on it), that record gets the verdict 'spec-evaluation-error', the rest of
            # its behaviour 'skipped-after-evaluation-error', and the remaining behaviours are judged in a fresh TLC run.  Report.finish
            # turns a run whose ONLY complaints are of this kind into a machinery failure (exit 2), so they never count as a verdict.
            remaining = list(buckets[k])
            vs_all, pos0, r = {}, 0, None
            for attempt in range(12):
                f = tmp / f'shard{k}-{attempt}.ndjson'
                with open(f, 'w') as fh:
                    for i in remaining:
                        fh.write(json.dumps(records[i], separators=(',', ':')) + '\n')
                e = {'TRACE_FILE': str(f)}
                if env:
                    e.update(env)
                r = run_tlc(module, cfg, workers=1, env=e, timeout=timeout)
                vs = {}
                for ln in r.out.splitlines():
                    m = VERDICT_RE.match(ln.strip())
                    if m:
                        vs[int(m.group(1))] = (m.group(2), m.group(3) or '')
                if r.completed and len(vs) == len(remaining):
                    for p_, v_ in vs.items():
                        vs_all[pos0 + p_] = v_
                    return k, vs_all, r
                n_ok = len(vs)
                if r.completed or sorted(vs) != list(range(1, n_ok + 1)) or n_ok >= len(remaining) or 'rror' not in r.out:
                    raise Machinery(f'trace spec {module} shard {k}: completed={r.completed} verdicts={len(vs)}/'
                                    f'{len(remaining)}\n{r.out[-4000:]}')
                for p_, v_ in vs.items():
                    vs_all[pos0 + p_] = v_
                bad = remaining[n_ok]
                vs_all[pos0 + n_ok + 1] = ('spec-evaluation-error', str(records[bad].get('act', '')))
                j = n_ok + 1
                while j < len(remaining) and 'b' in records[bad] and records[remaining[j]].get('b') == records[bad]['b']:
                    vs_all[pos0 + j + 1] = ('skipped-after-evaluation-error', str(records[remaining[j]].get('act', '')))
                    j += 1
                pos0 += j
                remaining = remaining[j:]
                if not remaining:
                    return k, vs_all, r
            raise Machinery(f'trace spec {module} shard {k}: more than 12 evaluation errors\n{r.out[-3000:]}')
        out: list = [None] * len(records)
        stats = []
        with ThreadPoolExecutor(max_workers=len(buckets)) as ex:
            for k, vs, r in ex.map(one, range(len(buckets))):
                for pos, i in enumerate(buckets[k], start=1):
                    out[i] = vs[pos]
                stats.append((r.generated, r.distinct))
        validate_traces.last_states = sum(s[1] for s in stats)
        validate_traces.last_transitions = sum(s[0] for s in stats)
        return out
    finally:
        shutil.rmtree(tmp, ignore_errors=True)


validate_traces.last_states = 0
validate_traces.last_transitions = 0

ORACLE_RE = re.compile(r'^<<"X", (\d+), (".*")>>$')


def run_oracle(module: str, records: list[dict], *, shards: int | None = None, timeout: int = 900) -> list:
    """Spec as oracle: the trace spec prints <<"X", l, ToJson(expected)>> per record; returns the decoded expectations."""
    if not records:
        return []
    if shards is None:
        shards = max(1, min(NCPU, len(records) // 20 + 1))
    buckets = [list(range(k, len(records), shards)) for k in range(shards)]
    buckets = [b for b in buckets if b]
    tmp = scratch('oracle-')
    try:
        def one(k):
            f = tmp / f'shard{k}.ndjson'
            with open(f, 'w') as fh:
                for i in buckets[k]:
                    fh.write(json.dumps(records[i], separators=(',', ':')) + '\n')
            r = run_tlc(module, None, workers=1, env={'TRACE_FILE': str(f)}, timeout=timeout)
            xs = {}
            for ln in r.out.splitlines():
                m = ORACLE_RE.match(ln.strip())
                if m:
                    xs[int(m.group(1))] = json.loads(json.loads(m.group(2)))
            if not r.completed or len(xs) != len(buckets[k]):
                raise Machinery(f'oracle spec {module} shard {k}: completed={r.completed} outputs={len(xs)}/{len(buckets[k])}\n{r.out[-4000:]}')
            return k, xs, r
        out: list = [None] * len(records)
        st = tr = 0
        with ThreadPoolExecutor(max_workers=len(buckets)) as ex:
            for k, xs, r in ex.map(one, range(len(buckets))):
                for pos, i in enumerate(buckets[k], start=1):
                    out[i] = xs[pos]
                st += r.distinct
                tr += r.generated
        validate_traces.last_states = st
        validate_traces.last_transitions = tr
        return out
    finally:
        shutil.rmtree(tmp, ignore_errors=True)


# ----------------------------------------------------------------------------
# Known findings
# ----------------------------------------------------------------------------

def known_findings(prop: str) -> list[dict]:
    f = VERIF / 'known_findings.json'
    if not f.exists():
        return []
    d = json.loads(f.read_text())
    return [x for x in d.get('open', []) if x['property'] == prop]


# ----------------------------------------------------------------------------
# Report / evidence
# ----------------------------------------------------------------------------

class Report:
    """Collects what one check run covered and decides the exit status."""

    def __init__(self, prop: str, tier: str, seed: int, level: str = 'model_checking'):
        self.prop, self.tier, self.seed, self.level = prop, tier, seed, level
        self.t0 = time.time()
        self.states = 0
        self.transitions = 0
        self.traces = 0
        self.evaluations = 0
        self.nontrivial = 0
        self.samples: list = []
        self.assumptions: list[str] = []
        self.rule = ''
        self.violations: list[dict] = []
        self.known: dict[str, dict] = {}
        self.extra: dict = {}
        self.exhaustive = False
        self.model_runs: list[dict] = []

    # -- Leg M
    def add_model(self, name: str, r: TlcResult, *, negative_control: bool = False, note: str = ''):
        self.states += r.distinct
        self.transitions += r.generated
        self.model_runs.append({'model': name, 'distinct_states': r.distinct, 'states_generated': r.generated,
                                'depth': r.depth, 'wall_s': round(r.wall, 1),
                                'result': ('violated ' + ','.join(r.violated)) if r.violated else 'no error',
                                'negative_control': negative_control, 'note': note})
        if r.violated and not negative_control:
            self.violation({'kind': 'model', 'model': name, 'invariants': r.violated,
                            'counterexample': r.counterexample()})

    def add_trace_stats(self):
        self.states += validate_traces.last_states
        self.transitions += validate_traces.last_transitions

    def violation(self, rec: dict):
        self.violations.append(rec)

    def known_finding(self, fid: str, what: str, example=None):
        k = self.known.setdefault(fid, {'what': what, 'count': 0, 'example': example})
        k['count'] += 1

    def sample(self, s, limit=4):
        if len(self.samples) < limit:
            self.samples.append(s)

    def finish(self) -> int:
        EVID.mkdir(exist_ok=True)
        wall = time.time() - self.t0
        cov = {
            'states': int(self.states), 'transitions': int(self.transitions),
            'traces_validated_against_impl': int(self.traces),
            'evaluations': int(self.evaluations), 'distinct_nontrivial': int(self.nontrivial),
            'rule': self.rule, 'samples': self.samples or [{'note': 'no sample recorded'}],
            'exhaustive': bool(self.exhaustive), 'model_runs': self.model_runs,
            'known_findings_seen': {k: v['count'] for k, v in self.known.items()},
        }
        cov.update(self.extra)
        ev = {'property_id': self.prop, 'tier': self.tier, 'seed': int(self.seed), 'level': self.level,
              'coverage': cov, 'assumptions': self.assumptions, 'wall_s': round(wall, 2),
              'violations': len(self.violations)}
        (EVID / f'{self.prop}.json').write_text(json.dumps(ev, indent=1, default=_js))
        for fid, k in self.known.items():
            print(f'KNOWN-FINDING: property={self.prop} {fid} {k["what"]} (seen {k["count"]}x this run)')
        if self.violations and all(str(v.get('clause', '')).startswith(('spec-evaluation-error', 'skipped-after-evaluation-error'))
                                   for v in self.violations):
            raise Machinery('the trace spec could not be evaluated on a recorded value and nothing else was found: '
                            + json.dumps(self.violations[0], default=_js)[:1500])
        if self.violations:
            REPLAYS.mkdir(exist_ok=True)
            path = REPLAYS / f'{self.prop}-{self.seed}-{self.tier}.json'
            path.write_text(json.dumps({'property': self.prop, 'seed': self.seed, 'tier': self.tier,
                                        'violations': self.violations[:20]}, indent=1, default=_js))
            v = self.violations[0]
            print('first violation:', json.dumps(v, default=_js)[:1500])
            print(f'VIOLATION property={self.prop} replay={path}')
            return 1
        if self.evaluations == 0 or self.nontrivial == 0:
            # a run that judged nothing (or nothing non-trivial) of the implementation decides nothing: never report it as OK
            raise Machinery(f'vacuous run: evaluations={self.evaluations} nontrivial={self.nontrivial}')
        print(f'OK property={self.prop} tier={self.tier} states={self.states} traces={self.traces} '
              f'evaluations={self.evaluations} nontrivial={self.nontrivial} wall={wall:.1f}s')
        return 0


def _js(o):
    import numpy as np
    if isinstance(o, (np.integer,)):
        return int(o)
    if isinstance(o, (np.floating,)):
        return float(o)
    if isinstance(o, np.ndarray):
        return o.tolist()
    if isinstance(o, (set, frozenset)):
        return sorted(o)
    return str(o)


def gemdat_src_first():
    """Put the tree under test first on sys.path (GEMDAT_SRC, default /repo/src)."""
    src = os.environ.get('GEMDAT_SRC', '/repo/src')
    if src in sys.path:
        sys.path.remove(src)
    sys.path.insert(0, src)
    import warnings
    warnings.filterwarnings('ignore')
    return src


def run_tlaps(module: str, timeout: int = 600) -> tuple[int, int]:
    """Check spec/<module>.tla with the TLA+ proof system in a scratch directory. Returns (obligations, proved)."""
    tmp = scratch('tlaps-')
    try:
        shutil.copy(SPEC / f'{module}.tla', tmp / f'{module}.tla')
        try:
            p = subprocess.run(['tlapm', '--threads', '4', f'{module}.tla'], cwd=str(tmp), stdout=subprocess.PIPE, stderr=subprocess.STDOUT,
                               text=True, timeout=timeout)
        except (subprocess.TimeoutExpired, FileNotFoundError) as ex:
            raise Machinery(f'tlapm failed on {module}: {ex}') from ex
        m = re.search(r'All (\d+) obligations? proved', p.stdout)
        if m:
            return int(m.group(1)), int(m.group(1))
        m = re.search(r'(\d+)/(\d+) obligations? failed', p.stdout)
        if m:
            return int(m.group(2)), int(m.group(2)) - int(m.group(1))
        raise Machinery(f'cannot read tlapm output for {module}:\n{p.stdout[-2000:]}')
    finally:
        shutil.rmtree(tmp, ignore_errors=True)


def run_and_finish(run, rep) -> int:
    """Run a property's body and finish the report with the exit-code policy of check.py (0 held / 1 VIOLATION / 2 machinery): an
    exception raised INSIDE the tree under test is a violation, any other one a machinery failure."""
    import traceback
    try:
        run(rep)
        return rep.finish()
    except Machinery as e:
        print(f'MACHINERY-FAILURE property={rep.prop}: {e}', file=sys.stderr)
        return 2
    except Exception as e:      # noqa
        src = os.path.realpath(os.environ.get('GEMDAT_SRC', '/repo/src'))
        frames = traceback.extract_tb(e.__traceback__)
        inside = [f for f in frames if os.path.realpath(f.filename).startswith(src + os.sep)]
        if inside:
            tb = ''.join(traceback.format_exception(type(e), e, e.__traceback__))
            rep.violation({'kind': 'exception', 'clause': f'code-under-test-raised:{type(e).__name__}',
                           'where': f'{inside[-1].filename}:{inside[-1].lineno}', 'traceback': tb[-3000:]})
            if not rep.samples:
                rep.sample({'note': 'run aborted by an exception raised in the code under test'})
            try:
                return rep.finish()
            except Machinery as e2:
                print(f'MACHINERY-FAILURE property={rep.prop}: {e2}', file=sys.stderr)
                return 2
        traceback.print_exc()
        print(f'MACHINERY-FAILURE property={rep.prop}: unexpected exception in harness', file=sys.stderr)
        return 2
