"""pytest plugin: record the repository's OWN tests as traces for TraceTraj.tla (C15, thorough tier).

Usage:  VERIF_TRACE_OUT=<file.ndjson> PYTHONPATH=/verif:<src> pytest -p harness.pytest_tracer <repo>/tests/...

The plugin wraps the public methods of gemdat.Trajectory *from outside* (no change to the repository): every outermost call
is logged at return with its arguments, the abstract projection of what it returned and the projection of every Trajectory
object the test has created so far.  One test = one behaviour.  Calls made by the library itself inside a wrapped call are
not logged (depth counter); objects they create are registered when the outer call returns them.
"""
from __future__ import annotations

import functools
import json
import os

import numpy as np

N = 240                      # tenths (the fixture) and quarters/thirds of tenths (drift means over 3-4 atoms) are grid points
OFFGRID = -999999

_state = {'b': -1, 'objs': [], 'recs': [], 'depth': 0, 'dt': {}, 'sp': {}, 'untraceable': set(), 'G': None}


def _grid(x, n=N):
    v = np.asarray(x, dtype=float) * n
    r = np.rint(v)
    bad = ~(np.abs(v - r) <= 1e-6 * np.maximum(1.0, np.abs(v)))
    out = r.astype(np.int64)
    out[bad] = OFFGRID
    return out


def _code(table, key):
    return table.setdefault(key, len(table))


def _lat_code(t):
    m = np.asarray(t.lattice, dtype=float)
    return _code(_state.setdefault('lat', {}), repr((bool(getattr(t, 'constant_lattice', True)), m.shape, tuple(np.round(m.ravel(), 9).tolist()))))


def _meta_code(md):
    if not isinstance(md, dict):
        return -1
    key = repr(sorted((str(k), repr(v)) for k, v in md.items()))
    return _code(_state.setdefault('meta', {}), key)


def _project(t):
    coords = np.array(t.coords, dtype=float)
    pos = (np.asarray(t.base_positions, dtype=float)[None] + np.cumsum(coords, axis=0)) if t.coords_are_displacement else coords
    k = _grid(pos)
    ok = k != OFFGRID
    k = np.where(ok, np.mod(k, N), OFFGRID)
    return {'pos': k.tolist(), 'sp': [_code(_state['sp'], getattr(s, 'symbol', str(s))) for s in t.species],
            'dt': _code(_state['dt'], repr(t.time_step)), 'meta': _meta_code(t.metadata), 'lat': _lat_code(t),
            'dead': False}


def _metric(t):
    M = np.asarray(t.lattice, dtype=float)        # attribute, not the (wrapped) get_lattice method
    if M.ndim != 2:
        return None
    G = M @ M.T
    Gi = np.rint(G * 1)
    return [[int(x) for x in row] for row in Gi] if np.abs(G - Gi).max() < 1e-9 else None


def _index(t):
    for i, o in enumerate(_state['objs']):
        if o is t:
            return i
    return None


def _register(t):
    if _index(t) is None:
        _state['objs'].append(t)
    return _index(t)


def _log(act, **kw):
    G = _state['G'] or [[1, 0, 0], [0, 1, 0], [0, 0, 1]]
    d = {'b': _state['b'], 'act': act, 'N': N, 'G': G}
    d.update(kw)
    d['objs'] = [_project(o) for o in _state['objs']]
    if any(OFFGRID in np.array(o['pos']).reshape(-1).tolist() for o in d['objs'] if len(o['pos'])):
        _state['untraceable'].add(_state['b'])
    _state['recs'].append(d)


def _outer(fn):
    """Run fn; tell whether this is the outermost wrapped call."""
    @functools.wraps(fn)
    def w(*a, **k):
        _state['depth'] += 1
        try:
            return fn(*a, **k), _state['depth'] == 1
        finally:
            _state['depth'] -= 1
    return w


def install():
    from gemdat.trajectory import Trajectory
    from pymatgen.core.trajectory import Trajectory as PT

    orig_init = Trajectory.__init__

    def init(self, *a, **k):
        (_, outer) = _outer(orig_init)(self, *a, **k)
        if outer and _state['b'] >= 0:
            new = _index(self) is None
            _register(self)
            if _state['G'] is None:
                _state['G'] = _metric(self)
            if new:
                p = _project(self)
                if self.coords_are_displacement:
                    _log('ConstructDisp', base=_grid(self.base_positions).tolist(), d=_grid(self.coords).tolist(), sp=p['sp'], dt=p['dt'], meta=p['meta'], lat=p['lat'])
                else:
                    _log('Construct', c=_grid(self.coords).tolist(), sp=p['sp'], dt=p['dt'], meta=p['meta'], lat=p['lat'])
    Trajectory.__init__ = init

    def wrap_prop(name, act, conv):
        prop = getattr(Trajectory, name)

        def getter(self):
            (val, outer) = _outer(prop.fget)(self)
            i = _index(self)
            if outer and i is not None:
                _log(act, i=i + 1, **conv(self, val))
            return val
        setattr(Trajectory, name, property(getter, doc=prop.__doc__))

    def conv_pos(self, p):
        k = _grid(p)
        return {'ret': np.where(k == OFFGRID, OFFGRID, np.mod(k, N)).tolist(), 'incell': bool(np.all((p >= 0) & (p < 1)))}
    wrap_prop('positions', 'GetPos', conv_pos)
    wrap_prop('displacements', 'GetDisp', lambda self, d: {'ret': _grid(d).tolist()})
    wrap_prop('cumulative_displacements', 'CumDisp', lambda self, d: {'ret': _grid(d).tolist()})

    def wrap_method(name, handler):
        orig = getattr(Trajectory, name)

        @functools.wraps(orig)
        def m(self, *a, **k):
            (val, outer) = _outer(orig)(self, *a, **k)
            i = _index(self)
            if outer and i is not None:
                handler(self, i, val, a, k)
            return val
        setattr(Trajectory, name, m)

    def h_dist(self, i, val, a, k):
        _log('Dist', i=i + 1, ret=_grid(np.asarray(val) ** 2, N * N).tolist())
    wrap_method('distances_from_base_position', h_dist)

    def h_getitem(self, i, val, a, k):
        frames = a[0]
        if isinstance(val, PT):
            n = len(self)
            idx = list(range(*frames.indices(n))) if isinstance(frames, slice) else [int(x) for x in frames]
            _register(val)
            _log('Slice' if isinstance(frames, slice) else 'IndexList', i=i + 1, idx=idx)
        elif isinstance(frames, (int, np.integer)) and hasattr(val, 'frac_coords'):
            k = _grid(np.asarray(val.frac_coords, dtype=float))
            _log('Frame', i=i + 1, t=int(frames) % len(self), how='index', ret=np.where(k == OFFGRID, OFFGRID, np.mod(k, N)).tolist(),
                 sp=[_code(_state['sp'], getattr(x, 'symbol', str(x))) for x in val.species])
        else:
            _log('ReadOnly', i=i + 1, what='structure')
    wrap_method('__getitem__', h_getitem)

    def h_filter(self, i, val, a, k):
        species = a[0] if a else k['species']
        if isinstance(species, str):
            species = [species]
        keep = [j for j, s in enumerate(self.species) if s.symbol in species]
        _register(val)
        _log('Filter', i=i + 1, keep=keep)
    wrap_method('filter', h_filter)

    def h_split(self, i, val, a, k):
        src = np.array(_project(self)['pos'])
        ranges, stop = [], 0
        for p in val:
            pp = np.array(_project(p)['pos'])
            n = len(pp)
            found = None
            for s in list(range(stop, len(src) - n + 1)) + list(range(0, stop)):
                if 0 <= s <= len(src) - n and np.array_equal(src[s:s + n], pp):
                    found = s
                    break
            ranges.append([found, found + n] if found is not None else [-1, -1])
            stop = ranges[-1][1] if found is not None else stop
        for p in val:
            _register(p)
        nparts = a[0] if a else k.get('n_parts', 10)
        equal = a[1] if len(a) > 1 else k.get('equal_parts', False)
        _log('Split', i=i + 1, k=int(nparts), equal=bool(equal), ranges=ranges)
    wrap_method('split', h_split)

    def h_extend(self, i, val, a, k):
        other = a[0] if a else k['trajectory']
        j = _index(other)
        if j is None:
            _state['untraceable'].add(_state['b'])
            return
        _log('Extend', i=i + 1, j=j + 1)
    wrap_method('extend', h_extend)

    def ref_of(self, k):
        fixed, floating = k.get('fixed_species'), k.get('floating_species')
        syms = [s.symbol for s in self.species]
        if fixed:
            fixed = [fixed] if isinstance(fixed, str) else list(fixed)
            return [j for j, s in enumerate(syms) if s in fixed]
        if floating:
            floating = [floating] if isinstance(floating, str) else list(floating)
            return [j for j, s in enumerate(syms) if s not in floating]
        return list(range(len(syms)))

    def h_drift(self, i, val, a, k):
        ref = ref_of(self, k)
        _log('Drift', i=i + 1, ref=ref, ret=_grid(np.asarray(val)[:, 0, :] * len(ref)).tolist())
    wrap_method('drift', h_drift)

    def h_apply(self, i, val, a, k):
        _register(val)
        _log('ApplyDrift', i=i + 1, ref=ref_of(self, k))
    wrap_method('apply_drift_correction', h_apply)

    for name in ('mean_squared_displacement', 'to_volume', 'metrics', 'center_of_mass', 'transitions_between_sites', 'get_lattice', 'to_cache'):
        def h_ro(self, i, val, a, k, name=name):
            _log('ReadOnly', i=i + 1, what=name)
        wrap_method(name, h_ro)


def pytest_configure(config):
    install()


def pytest_runtest_setup(item):
    _state['b'] += 1
    _state['objs'] = []
    _state['G'] = None
    _state.setdefault('names', {})[_state['b']] = item.nodeid


def pytest_sessionfinish(session, exitstatus):
    out = os.environ.get('VERIF_TRACE_OUT')
    if not out:
        return
    with open(out, 'w') as fh:
        for r in _state['recs']:
            if r['b'] in _state['untraceable']:
                continue
            fh.write(json.dumps(r, separators=(',', ':')) + '\n')
    with open(out + '.meta', 'w') as fh:
        json.dump({'tests': _state.get('names', {}), 'untraceable': sorted(_state['untraceable']),
                   'events': len(_state['recs'])}, fh)
