"""Synthetic simulation files that parse offline: a minimal vasprun.xml and a LAMMPS xyz + data file pair."""
import numpy as np, time
from pathlib import Path
def structure_xml(name, basis, pos):
    nm = f' name="{name}"' if name else ''
    s = [f' <structure{nm}>', '  <crystal>', '   <varray name="basis" >']
    for v in basis: s.append('    <v> %.8f %.8f %.8f </v>' % tuple(v))
    s.append('   </varray>')
    s.append('   <i name="volume"> %.8f </i>' % abs(np.linalg.det(basis)))
    s.append('   <varray name="rec_basis" >')
    for v in np.linalg.inv(basis).T: s.append('    <v> %.8f %.8f %.8f </v>' % tuple(v))
    s.append('   </varray>'); s.append('  </crystal>')
    s.append('  <varray name="positions" >')
    for p in pos: s.append('   <v> %.8f %.8f %.8f </v>' % tuple(p))
    s.append('  </varray>'); s.append(' </structure>')
    return '\n'.join(s)
def write_vasprun(path, T=3, scale=None):
    basis=np.array([[8.0,0,0],[1.0,9.0,0],[0.5,0.25,10.0]])
    pos=np.array([[0.1,0.1,0.1],[0.4,0.2,0.1],[0.5,0.5,0.5]])
    out=['<?xml version="1.0" encoding="ISO-8859-1"?>','<modeling>',
     ' <generator>','  <i name="program" type="string">vasp </i>','  <i name="version" type="string">5.4.4  </i>',' </generator>',
     ' <incar>','  <i type="int" name="NSW">     3</i>','  <i type="int" name="IBRION">     0</i>',' </incar>',
     ' <parameters>','  <separator name="electronic" >','   <i type="int" name="NELM">    60</i>','  </separator>',
     '  <separator name="ionic" >','   <i type="int" name="NSW">     3</i>','   <i type="int" name="IBRION">     0</i>','   <i name="POTIM">      2.00000000</i>','   <i name="TEBEG">    600.00000000</i>','  </separator>',
     ' </parameters>',
     ' <atominfo>','  <atoms>       3 </atoms>','  <types>       2 </types>',
     '  <array name="atoms" >','   <dimension dim="1">ion</dimension>','   <field type="string">element</field>','   <field type="int">atomtype</field>','   <set>',
     '    <rc><c>Li</c><c>   1</c></rc>','    <rc><c>Li</c><c>   1</c></rc>','    <rc><c>S </c><c>   2</c></rc>','   </set>','  </array>',
     '  <array name="atomtypes" >','   <dimension dim="1">type</dimension>','   <field type="int">atomspertype</field>','   <field type="string">element</field>','   <field>mass</field>','   <field>valence</field>','   <field type="string">pseudopotential</field>','   <set>',
     '    <rc><c>   2</c><c>Li</c><c>      6.94100000</c><c>      1.00000000</c><c>  PAW_PBE Li 17Jan2003                  </c></rc>',
     '    <rc><c>   1</c><c>S </c><c>     32.06600000</c><c>      6.00000000</c><c>  PAW_PBE S 06Sep2000                   </c></rc>','   </set>','  </array>',' </atominfo>',
     structure_xml('initialpos', basis, pos)]
    for t in range(T):
        b = basis*(1+0.01*t) if scale else basis
        out.append(' <calculation>')
        # atoms drift across the cell faces and are written unwrapped, as an MD code may do
        out.append(structure_xml('', b, pos + np.array([[0.21, -0.13, 0.0], [0.0, 0.17, 0.19], [-0.11, 0.0, 0.0]]) * t))
        out.append('  <energy>\n   <i name="e_fr_energy">    -10.0 </i>\n   <i name="e_wo_entrp">    -10.0 </i>\n   <i name="e_0_energy">    -10.0 </i>\n  </energy>')
        out.append(' </calculation>')
    out.append(structure_xml('finalpos', basis, pos + np.array([[0.21, -0.13, 0.0], [0.0, 0.17, 0.19], [-0.11, 0.0, 0.0]]) * (T - 1)))
    out.append('</modeling>')
    Path(path).parent.mkdir(exist_ok=True, parents=True)
    Path(path).write_text('\n'.join(out)+'\n')


def write_lammps(d, T=4, tilt=True):
    d = Path(d)
    d.mkdir(exist_ok=True, parents=True)
    data = """LAMMPS data file

3 atoms
2 atom types

0.0 8.0 xlo xhi
0.0 9.0 ylo yhi
0.0 10.0 zlo zhi
{tilt}
Masses

1 6.941
2 32.065

Atoms

1 1 1.0 1.0 1.0
2 1 3.0 2.0 1.0
3 2 5.0 5.0 5.0
""".format(tilt="1.0 0.5 0.25 xy xz yz\n" if tilt else "")
    (d / 'lammps.data').write_text(data)
    lines = []
    pos = np.array([[1.0, 1.0, 1.0], [3.0, 2.0, 1.0], [5.0, 5.0, 5.0]])
    for t in range(T):
        lines.append('3')
        lines.append(f'Atoms. Timestep: {t}')
        for el, p in zip(['Li', 'Li', 'S'], pos + np.array([[1.7, -0.9, 0.0], [0.0, 2.3, 1.9], [-1.3, 0.0, 0.0]]) * t):
            lines.append(f'{el} {p[0]:.6f} {p[1]:.6f} {p[2]:.6f}')
    (d / 'traj.xyz').write_text('\n'.join(lines) + '\n')
