"""Exact-lattice cases for site assignment (C02, geometry side of C07): generator + driver."""
from __future__ import annotations

import math

import numpy as np

from . import gen
from .sites_drive import hist_of, transitions

N_DEFAULT = 64


def _special_coord(rng, N):
    r = rng.random()
    if r < 0.25:
        return 0
    if r < 0.35:
        return N // 2
    if r < 0.45:
        return N - 1
    return int(rng.integers(0, N))


def pick_sites_faces(rng, G, N, n, min_sep):
    """Sites incl. faces/corners (coordinate 0, N/2, N-1), pairwise >= min_sep Angstrom apart."""
    R = gen.image_range(G)
    thr = min_sep * min_sep * N * N
    for _ in range(500):
        pts = []
        tries = 0
        while len(pts) < n and tries < 300:
            tries += 1
            p = [_special_coord(rng, N) for _ in range(3)]
            if all(gen.min_image_sq(G, [p[i] - q[i] for i in range(3)], N, R) >= thr for q in pts):
                pts.append(p)
        if len(pts) == n:
            return pts
    raise RuntimeError('cannot place sites')


def sites_one_radius_from_faces(rng, G, N, sites, radius):
    """Move some site coordinates to about one radius (0.7..1.5 r / |a_c|, fractional) from a cell face, on either side,
    keeping the sites apart: the boundary class where an atom within the radius sits across the face."""
    R = gen.image_range(G)
    lens = [math.sqrt(G[i][i]) for i in range(3)]
    out = [list(p) for p in sites]
    flags = []
    for i in range(len(out)):
        for c in range(3):
            if rng.random() < 0.5:
                d = int(round(float(rng.uniform(0.85, 1.3)) * radius / lens[c] * N))
                low = bool(rng.random() < 0.5)
                cand = list(out[i])
                cand[c] = d % N if low else (N - d) % N
                if all(gen.min_image_sq(G, [cand[k] - out[j][k] for k in range(3)], N, R) >= (2 * radius + 0.3) ** 2 * N * N
                       for j in range(len(out)) if j != i):
                    out[i] = cand
                    flags.append((i, c, -1 if low else 1, d))
    return out, flags


def crossing_offsets(G, N, flag, thr):
    """Grid offsets from a flagged site that end on the far side of the face AND within the radius (norm_sq < thr)."""
    i, c, sign, d = flag
    res = []
    m = 6
    for extra in range(0, 4):
        oc = sign * (d + extra)
        for u in range(-m, m + 1):
            for v in range(-m, m + 1):
                o = [0, 0, 0]
                o[c] = oc
                o[(c + 1) % 3] = u
                o[(c + 2) % 3] = v
                if gen.norm_sq(G, o) < thr:
                    res.append(o)
    return res


def pick_radius(rng, N, rmin, rmax, fractions):
    """Radius r with r^2 N^2 = Q + 0.5 (Q integer) and f^2 (Q+0.5) at least 0.05 from an integer for every f."""
    lo, hi = int(rmin * rmin * N * N), int(rmax * rmax * N * N)
    for _ in range(1000):
        Q = int(rng.integers(lo, max(lo + 1, hi)))
        ok = True
        for f in fractions:
            v = f * f * (Q + 0.5)
            if abs(v - round(v)) < 0.05:
                ok = False
        if ok:
            return math.sqrt(Q + 0.5) / N, Q
    raise RuntimeError('no radius')


def positions_near(rng, G, N, sites, radii, T, A, visit=None, w_min=None, flags=()):
    """Grid positions [T][A] steered to lie inside / in the shell / just outside spheres of the visited sites."""
    lens = [math.sqrt(G[i][i]) for i in range(3)]
    pos = []
    visit = list(range(len(sites))) if visit is None else visit
    for t in range(T):
        row = []
        for a in range(A):
            s = visit[int(rng.integers(0, len(visit)))]
            r = radii[s]
            band = rng.random()
            mine = [f for f in flags if f[0] == s]
            if mine and rng.random() < 0.5:
                # an atom within the radius on the far side of the cell face next to this site
                f = mine[int(rng.integers(0, len(mine)))]
                offs = crossing_offsets(G, N, f, int(r * r * N * N))
                if offs:
                    o = offs[int(rng.integers(0, len(offs)))]
                    row.append([(sites[s][i] + o[i]) % N for i in range(3)])
                    continue
            for _ in range(400):
                m = [max(1, int(math.ceil(1.7 * r * N / lens[i]))) for i in range(3)]
                o = [int(rng.integers(-m[i], m[i] + 1)) for i in range(3)]
                d = math.sqrt(gen.norm_sq(G, o)) / N
                if band < 0.35 and d < 0.5 * r:
                    break
                if 0.35 <= band < 0.7 and 0.5 * r <= d < 1.0 * r:
                    break
                if band >= 0.7 and 1.0 * r <= d < 1.6 * r:
                    break
            k = [(sites[s][i] + o[i]) % N for i in range(3)]
            row.append(k)
        pos.append(row)
    return pos


def make_case(rng, b, fam, orient, mode, fractions=(1.0, 0.75, 0.5, 0.25), N=N_DEFAULT, species='Li'):
    """mode: 'float' | 'dict' | 'dict-unvisited'.  Returns (record skeleton, trajectory, structure, kwargs)."""
    from pymatgen.core import Lattice, Species, Structure
    from gemdat import Trajectory
    G = gen.FAMILIES[fam]
    R = gen.image_range(G)
    M = gen.lattice_matrix(G, orient, rng)
    lattice = Lattice(M)
    S = int(rng.integers(2, 7))
    w, _ = gen.perp_widths(G)
    sites = pick_sites_faces(rng, G, N, S, 2.3)
    f = float(rng.choice(fractions))
    dmin = math.sqrt(min(gen.min_image_sq(G, [sites[a][i] - sites[c][i] for i in range(3)], N, R)
                         for a in range(S) for c in range(a + 1, S))) / N
    rmax = min(dmin / 2 - 0.03, 0.45 * min(w))
    # label pairs incl. one label being a substring of the other (Li1 / Li10): sites are grouped by label EQUALITY
    LA, LB = [('A', 'B'), ('Li1', 'Li10'), ('Li10', 'Li1'), ('Li', 'Li1'), ('48h2', '48h'), ('B', 'AB')][int(rng.integers(0, 6))]
    labels = [LA if i < (S + 1) // 2 else LB for i in range(S)]
    if rng.random() < 0.6:
        rng.shuffle(labels)                 # sites of one label need not be stored next to each other
    if mode == 'float':
        r, Q = pick_radius(rng, N, 0.6, rmax, [f])
        radii = [r] * S
        kw_radius = float(r)
    else:
        rA, QA = pick_radius(rng, N, 0.6, rmax, [f])
        rB, QB = pick_radius(rng, N, 0.6, rmax, [f])
        radii = [rA if lab == LA else rB for lab in labels]
        kw_radius = {LA: float(rA), LB: float(rB)} if rng.random() < 0.5 else {LB: float(rB), LA: float(rA)}
    T, A = int(rng.integers(2, 7)), int(rng.integers(1, 5))
    nearface = bool(rng.random() < 0.5)
    flags = ()
    if nearface:
        sites, flags = sites_one_radius_from_faces(rng, G, N, sites, max(radii))
    visit = None
    if mode == 'dict-unvisited':
        # only the last member of group A and the last of group B are ever approached
        lastA = max(i for i, lab in enumerate(labels) if lab == LA)
        lastB = max(i for i, lab in enumerate(labels) if lab == LB)
        visit = [lastA, lastB]
    pos = positions_near(rng, G, N, sites, radii, T, A, visit, flags=flags)
    shifts = rng.integers(-2, 3, size=(T, A, 3))
    coords = np.array(pos, dtype=float) / N + shifts
    traj = Trajectory(species=[Species(species)] * A, coords=coords, lattice=lattice, time_step=1e-15,
                      metadata={'temperature': 300.0})
    # the reference structure of the sites may come with its own, slightly different cell (e.g. from a CIF):
    # sites are located by their fractional coordinates in the simulation cell
    scale = float(rng.choice([1.0, 1.0, 1.04, 0.95, 1.3]))
    # ... and with fractional coordinates as given, not necessarily inside [0, 1) (pymatgen keeps them unless asked to wrap)
    site_shift = rng.integers(-2, 3, size=(S, 3)) if rng.random() < 0.5 else np.zeros((S, 3), dtype=int)
    structure = Structure(lattice=Lattice(M * scale), species=[species] * S, coords=np.array(sites) / N + site_shift, labels=labels)
    thr = [int(math.ceil(r * r * N * N - 1e-9)) for r in radii]
    thr_in = [int(math.ceil(f * f * r * r * N * N - 1e-9)) for r in radii]
    rec = {'b': b, 'G': G, 'N': N, 'R': R, 'sites': sites, 'thr': thr, 'thrIn': thr_in, 'pos': pos,
           'auto': False, 'raised': False, 'tooClose': False,
           'meta': {'family': fam, 'orientation': orient, 'mode': mode, 'inner_fraction': f, 'radius': kw_radius,
                    'labels': labels, 'nearface': nearface, 'sites_lattice_scale': scale,
                    'sites_outside_cell': bool(site_shift.any())}}
    return rec, traj, structure, dict(site_radius=kw_radius, site_inner_fraction=f)


def run_case(rec, traj, structure, kw, species='Li', rng=None):
    if rng is not None:
        gen.perturb(traj, rng)
        if rng.random() < 0.3:
            transitions(traj, structure, species, **kw)      # asked twice: the second answer is judged
    tr = transitions(traj, structure, species, **kw)
    rec['hist'] = hist_of(tr.states, tr.inner_states)
    return rec, tr


def make_auto_case(rng, b, fam, orient, close=False, N=N_DEFAULT):
    """site_radius=None: radius = min(2 vib, dmin/2 - 0.005), error iff 2 r < 0.5."""
    from pymatgen.core import Lattice, Species, Structure
    from gemdat import Trajectory, TrajectoryMetrics
    G = gen.FAMILIES[fam]
    R = gen.image_range(G)
    M = gen.lattice_matrix(G, orient, rng)
    lattice = Lattice(M)
    S = int(rng.integers(2, 5))
    if close:
        sites = pick_sites_faces(rng, G, N, S - 1, 2.3)
        step = int(rng.integers(1, 4))
        sites.append([(sites[0][0] + step) % N, sites[0][1], sites[0][2]])
    else:
        sites = pick_sites_faces(rng, G, N, S, float(rng.choice([1.2, 2.3, 3.0])))
    qmin = min(gen.min_image_sq(G, [sites[a][i] - sites[c][i] for i in range(3)], N, R)
               for a in range(S) for c in range(a + 1, S))
    dmin = math.sqrt(qmin) / N
    T, A = int(rng.integers(6, 12)), int(rng.integers(1, 4))
    # amplitude of the atomic motion: small (radius = 2 x vibration amplitude) or about half the smallest site separation
    # (radius clamped to dmin/2 - 0.005, atoms straddling the sphere surface)
    amp = float(rng.choice([0.1, 0.3, 0.8, dmin / 2, dmin / 2, dmin / 2]))
    pos = positions_near(rng, G, N, sites, [amp] * S, T, A)
    coords = np.array(pos, dtype=float) / N
    traj = Trajectory(species=[Species('Li')] * A, coords=coords, lattice=lattice, time_step=1e-15,
                      metadata={'temperature': 300.0})
    scale = float(rng.choice([1.0, 1.05, 0.96, 1.25]))
    structure = Structure(lattice=Lattice(M * scale), species=['Li'] * S, coords=np.array(sites) / N, labels=['A'] * S)
    vib = float(TrajectoryMetrics(traj.filter('Li')).vibration_amplitude())
    r = 2 * vib
    too_close = False
    margin_ok = abs(dmin - 2 * r) > 1e-6
    if dmin < 2 * r:
        r = 0.5 * dmin - 0.005
        margin_ok = margin_ok and abs(2 * r - 0.5) > 1e-6
        too_close = 2 * r < 0.5
    v = r * r * N * N
    if not too_close and (abs(v - round(v)) < 0.02 or r <= 0):
        margin_ok = False
    thr = int(math.ceil(v)) if r > 0 else 0
    rec = {'b': b, 'G': G, 'N': N, 'R': R, 'sites': sites, 'thr': [thr] * S, 'thrIn': [thr] * S, 'pos': pos,
           'auto': True, 'raised': False, 'tooClose': bool(too_close),
           'meta': {'family': fam, 'orientation': orient, 'mode': 'auto', 'vib': vib, 'dmin': dmin, 'radius': r, 'sites_lattice_scale': scale}}
    if not margin_ok:
        return None
    try:
        tr = transitions(traj, structure, 'Li', site_radius=None, site_inner_fraction=1.0)
        rec['hist'] = hist_of(tr.states, tr.inner_states)
    except ValueError as e:
        if 'too close' in str(e):
            rec['raised'] = True
            rec['hist'] = []
        elif 'need at least one array' in str(e):
            return None
        else:
            raise
    return rec
