"""Cases and comparisons for C06 / C14: integer walks -> real Trajectory -> metrics vs exact cores from TraceMetrics."""
from __future__ import annotations

import math

import numpy as np
from scipy.constants import Avogadro, Boltzmann, angstrom, elementary_charge

from . import gen

N = 16


def make_walk(rng, T, A, onedim=False, identical=False, static_from=None):
    """Integer steps (|step| <= 7 < N/2 per component) with a per-atom bias so that atoms cross cell faces many times."""
    steps = np.zeros((T, A, 3), dtype=np.int64)
    for a in range(A):
        bias = rng.integers(-3, 4, size=3)
        for t in range(1, T):
            s = bias + rng.integers(-3, 4, size=3)
            steps[t, a] = np.clip(s, -7, 7)
    if onedim:
        steps[:, :, 1:] = 0
    if identical:
        steps[:, :, :] = steps[:, :1, :]
    if static_from is not None:
        steps[:, static_from:, :] = 0
    return np.cumsum(steps, axis=0)


def build(rng, fam, orient, w, species, dt_fs=2, temp=500, as_displacements=False):
    """The walk w (unwrapped, integer grid units) as a Trajectory: from wrapped, lattice-shifted positions, or -- the constructor's
    other form -- from the per-frame displacements and the base positions (what apply_drift_correction builds)."""
    from pymatgen.core import Element, Lattice, Species
    from gemdat import Trajectory
    G = gen.FAMILIES[fam]
    M = gen.lattice_matrix(G, orient, rng)
    T, A, _ = w.shape
    base = rng.integers(0, N, size=(A, 3))
    raw = np.mod(base[None] + w, N) + N * rng.integers(-2, 3, size=(T, A, 3))
    mk = Species if rng.random() < 0.5 else Element
    if as_displacements:
        steps = np.diff(w, axis=0, prepend=w[:1])
        traj = Trajectory(species=[mk(s) for s in species], coords=steps / N, lattice=Lattice(M), time_step=dt_fs * 1e-15,
                          metadata={'temperature': temp}, coords_are_displacement=True, base_positions=(base + w[0]) / N)
        return traj, G
    traj = Trajectory(species=[mk(s) for s in species], coords=raw / N, lattice=Lattice(M), time_step=dt_fs * 1e-15,
                      metadata={'temperature': temp})
    return traj, G


def close(obs, exp, rel=1e-9, abs_=1e-6, scale=None):
    scale = max(1.0, abs(exp)) if scale is None else scale
    return math.isfinite(obs) and abs(obs - exp) <= rel * scale + abs_


def part_ranges(traj, parts):
    src = np.array(traj.positions)
    out = []
    stop = 0
    for p in parts:
        pp = np.array(p.positions)
        n = len(pp)
        found = None
        for s in list(range(stop, len(src) - n + 1)) + list(range(0, stop)):
            if 0 <= s <= len(src) - n and np.array_equal(src[s:s + n], pp):
                found = s
                break
        if found is None:
            return None
        out.append((found, found + n))
        stop = found + n
    return out
