"""Lifecycle driver for memoised methods (C20): probe class with the real weak_lru_cache + real analysis classes."""
from __future__ import annotations

import gc
import hashlib
import pickle
import weakref

import numpy as np

from . import gen


def digest(v):
    """Canonical tag of a returned value."""
    import networkx as nx
    import pandas as pd
    from gemdat.collective import Collective
    if isinstance(v, Collective):
        v = ('Collective', int(v.n_solo_jumps), [[list(map(int, a)), list(map(int, b))] for a, b in v.coll_jumps], float(v.max_dist))
    elif isinstance(v, pd.DataFrame):
        v = ('df', v.to_json())
    elif isinstance(v, nx.Graph):
        v = ('graph', sorted((int(a), int(b), repr(d)) for a, b, d in v.edges(data=True)), sorted(v.nodes))
    elif isinstance(v, np.ndarray):
        v = ('nd', v.shape, v.tobytes())
    elif isinstance(v, tuple) and any(isinstance(x, np.ndarray) for x in v):
        v = ('tuple', [digest(x) for x in v])
    elif isinstance(v, dict):
        v = ('dict', sorted((repr(k), repr(x)) for k, x in v.items()))
    try:
        b = pickle.dumps(v)
    except Exception:
        b = repr(v).encode()
    return hashlib.sha1(b).hexdigest()


def shape_of(v):
    """The value with every float replaced by 0.0: values that can be equal up to round-off share it."""
    if isinstance(v, float):
        return 0.0
    if isinstance(v, tuple):
        return tuple(shape_of(x) for x in v)
    return v


def canon(v):
    """A returned value as nested tuples of numbers and strings, for comparison up to floating-point round-off."""
    import networkx as nx
    import pandas as pd
    from gemdat.collective import Collective
    if isinstance(v, Collective):
        return ('Collective', int(v.n_solo_jumps), tuple((tuple(map(int, a)), tuple(map(int, b))) for a, b in v.coll_jumps), float(v.max_dist))
    if isinstance(v, pd.DataFrame):
        return ('df', tuple(map(str, v.columns)), tuple(map(str, v.index)), canon(v.to_numpy()))
    if isinstance(v, nx.Graph):
        return ('graph', tuple(sorted(map(repr, v.nodes))), tuple(sorted((repr(a), repr(b), canon(d)) for a, b, d in v.edges(data=True))))
    if isinstance(v, np.ndarray):
        if v.dtype.kind in 'fc':
            return ('nd', v.shape, tuple(float(x) for x in np.asarray(v, dtype=float).ravel()))
        if v.dtype.kind == 'O':
            return ('ndo', v.shape, tuple(canon(x) for x in v.ravel()))
        return ('ndi', v.shape, str(v.dtype), v.tobytes())
    if isinstance(v, dict):
        return ('dict', tuple(sorted((repr(k), canon(x)) for k, x in v.items())))
    if isinstance(v, (list, tuple)):
        return (type(v).__name__, tuple(canon(x) for x in v))
    if isinstance(v, (bool, int, str, type(None))):
        return v
    if isinstance(v, (float, np.floating)):
        return float(v)
    try:
        return ('num', float(v), repr(type(v).__name__))          # FloatWithUnit, ufloat nominal values ...
    except Exception:      # noqa
        return ('repr', repr(v))


def same_value(a, b, rel=1e-9, abs_=1e-12):
    """Equality of two canon() values; floats up to round-off (a memoised value may have been computed while the trajectory was held in
    the other internal representation: positions <-> displacements round trips differ in the last bits)."""
    if isinstance(a, float) and isinstance(b, float):
        return a == b or (a != a and b != b) or abs(a - b) <= abs_ + rel * max(abs(a), abs(b))
    if isinstance(a, tuple) and isinstance(b, tuple):
        return len(a) == len(b) and all(same_value(x, y, rel, abs_) for x, y in zip(a, b))
    return type(a) is type(b) and a == b


class Driver:
    def __init__(self, b):
        self.b = b
        self.recs = []
        self.objs = {}          # oid -> strong reference held by the "user"
        self.alive = {}         # oid -> [bool]
        self.next = 1
        self.tags = {}
        self.values = {}        # shape digest -> [(tag, canon value)]
        self.reported_dead = set()
        self.addr_seen = {}
        self.addr_reuse = 0

    def tag(self, d):
        return self.tags.setdefault(d, len(self.tags) + 1)

    def tag_of(self, value):
        """Tag of a canon() value: the tag of the first value seen that equals it up to round-off."""
        key = digest(value)
        if key in self.tags:
            return self.tags[key]
        bucket = digest(shape_of(value))
        for (t, v) in self.values.setdefault(bucket, []):
            if same_value(v, value):
                self.tags[key] = t
                return t
        t = self.tag(key)
        self.values[bucket].append((t, value))
        return t

    def create(self, obj, parents=()):
        o = self.next
        self.next += 1
        self.objs[o] = obj
        flag = [True]
        self.alive[o] = flag
        weakref.finalize(obj, flag.__setitem__, 0, False)
        a = id(obj)
        if a in self.addr_seen:
            self.addr_reuse += 1
        self.addr_seen[a] = o
        self.recs.append({'b': self.b, 'act': 'Create', 'o': o, 'addr': a % 1000003, 'parents': list(parents), 'cls': type(obj).__name__})
        return o

    def call(self, o, name, *args, **kw):
        obj = self.objs[o]
        meth = getattr(type(obj), name)
        # a call that rejects its arguments is an outcome like any other: same exception from the memoised and the plain method, and
        # (checked at the next Collect) no reference to the object left behind
        try:
            got = canon(getattr(obj, name)(*args, **kw))
        except Exception as e:      # noqa
            got = f'raised:{type(e).__name__}:{e}'
        try:
            fresh = canon(meth.__wrapped__(obj, *args, **kw))
        except Exception as e:      # noqa
            fresh = f'raised:{type(e).__name__}:{e}'
        # tags: equal values (up to round-off) get equal tags -- also across calls: a value seen before keeps its tag
        self.recs.append({'b': self.b, 'act': 'Call', 'o': o, 'm': name, 'x': repr((args, sorted(kw.items()))),
                          'rtag': self.tag_of(got), 'ftag': self.tag_of(fresh)})
        del obj

    def drop(self, o):
        del self.objs[o]
        self.recs.append({'b': self.b, 'act': 'Drop', 'o': o})

    def collect(self, full=True):
        # reference counting frees acyclic objects at once; a full collection is only needed for cyclic garbage
        if full:
            gc.collect()
        dead = [o for o, f in self.alive.items() if not f[0] and o not in self.reported_dead]
        self.reported_dead.update(dead)
        self.recs.append({'b': self.b, 'act': 'Collect', 'dead': dead})


def probe_class():
    from gemdat.caching import weak_lru_cache

    class Probe:
        __slots__ = ('data', '__weakref__')

        def __init__(self, data):
            self.data = data

        @weak_lru_cache(maxsize=4)
        def f(self, x):
            return (self.data, x)

        @weak_lru_cache()
        def g(self):
            return [self.data, 'g']

        @weak_lru_cache(maxsize=4)
        def h(self, x=0, *, k=1):
            return {'d': self.data, 'x': x, 'k': k}

        @weak_lru_cache(maxsize=8)
        def p(self, a=None, b=None, c=7):
            return ('p', self.data, a, b, c)

        @weak_lru_cache(maxsize=8)
        def q(self, x):
            if x < 0:
                raise ValueError(f'negative argument {x} for {self.data}')
            if x == 0:
                raise KeyError(x)
            return ('q', self.data, x)
    return Probe


def probe_behaviour(b, rng, n_steps=80, max_live=12):
    Probe = probe_class()
    d = Driver(b)
    serial = 0
    for _ in range(n_steps):
        r = rng.random()
        live = list(d.objs)
        if (r < 0.25 and len(live) < max_live) or not live:
            serial += 1
            d.create(Probe(('p', b, serial)))
        elif r < 0.7:
            o = live[int(rng.integers(0, len(live)))]
            which = int(rng.integers(0, 5))
            if which == 4:
                d.call(o, 'q', int(rng.integers(-2, 3)))               # rejected arguments (ValueError / KeyError) and accepted ones
            elif which == 0:
                d.call(o, 'f', int(rng.integers(0, 6)))
            elif which == 1:
                d.call(o, 'g')
            elif which == 2:
                form = int(rng.integers(0, 4))
                if form == 0:
                    d.call(o, 'h', int(rng.integers(0, 3)), k=int(rng.integers(0, 2)))
                elif form == 1:
                    d.call(o, 'h', k=int(rng.integers(0, 3)))          # later parameter by keyword, earlier one omitted
                elif form == 2:
                    d.call(o, 'h', x=int(rng.integers(0, 3)))
                else:
                    d.call(o, 'h')
            else:
                v = int(rng.integers(0, 3))
                form = int(rng.integers(0, 6))
                if form == 0:
                    d.call(o, 'p', b=v)
                elif form == 1:
                    d.call(o, 'p', a=v)
                elif form == 2:
                    d.call(o, 'p', None, v)
                elif form == 3:
                    d.call(o, 'p', c=v)
                elif form == 4:
                    d.call(o, 'p', v, c=v + 1)
                else:
                    d.call(o, 'p', b=v, a=v + 1)
        elif r < 0.9:
            d.drop(live[int(rng.integers(0, len(live)))])
            if rng.random() < 0.7:
                d.collect(full=False)
        else:
            d.collect(full=rng.random() < 0.1)
    for o in list(d.objs):
        d.drop(o)
    d.collect()
    return d


def real_behaviour(b, rng, n_objects=12, n_steps=60):
    """Transitions / Jumps / Collective / TrajectoryMetrics built from distinct small histories."""
    from gemdat import TrajectoryMetrics
    d = Driver(b)
    fams = list(gen.FAMILIES)
    made = 0
    kinds = {}

    def new_chain():
        nonlocal made
        made += 1
        w = gen.SiteWorld(rng, fams[made % len(fams)], 'pmg', N=32, n_sites=3, radius=1.0, inner_fraction=1.0)
        for _ in range(20):
            h = gen.random_history(rng, int(rng.integers(12, 20)), 2, 3, p_stay=0.5, inner=False)
            traj = w.trajectory(h)
            try:
                tr = traj.transitions_between_sites(w.structure, 'Li', site_radius=1.0)
                j = tr.jumps()
                break
            except ValueError:
                continue
        else:
            return
        # the trajectories are objects of the lifecycle too: analysis objects hold them, and nothing else may
        oT = d.create(traj)
        oD = d.create(tr.diff_trajectory)
        ot = d.create(tr, parents=[oT, oD])
        oj = d.create(j, parents=[ot, oD])
        om = d.create(TrajectoryMetrics(tr.diff_trajectory), parents=[oD])
        kinds[oT], kinds[oD] = 'R', 'R'
        del traj, tr, j
        return ot, oj, om

    for _ in range(max(1, n_objects // 3)):
        r = new_chain()
        if r:
            kinds[r[0]], kinds[r[1]], kinds[r[2]] = 'T', 'J', 'M'
    if b % 4 == 0:
        # directed: every plotting front-end once on the first Jumps object, each followed by the memoised methods it reads
        o = next((x for x in d.objs if kinds.get(x) == 'J'), None)
        if o is not None:
            for k_, name in enumerate(['plot_jumps_3d', 'plot_jumps_vs_distance', 'plot_jumps_vs_time', 'plot_collective_jumps']):
                backend = ['plotly', 'matplotlib'][(k_ + b // 4) % 2]
                try:
                    fig = getattr(d.objs[o], name)(backend=backend)
                    if backend == 'matplotlib':
                        import matplotlib.pyplot as plt
                        plt.close('all')
                    del fig
                except Exception:       # noqa
                    pass
                d.call(o, 'matrix')
                d.call(o, 'jump_diffusivity', 3)
                d.call(o, 'counter')
            # directed: the same memoised method with different arguments, interleaved -- an answer for one set of arguments must not
            # disturb the answer for another (thresholded graphs vs the complete graph; activation energies read the complete graph)
            try:
                g_all = d.objs[o].to_graph()
                e_acts = sorted(float(dd['e_act']) for _, _, dd in g_all.edges(data=True))
                del g_all
            except Exception:       # noqa
                e_acts = []
            if len(e_acts) >= 2:
                mid = (e_acts[0] + e_acts[-1]) / 2 if e_acts[0] < e_acts[-1] else e_acts[0] - 1e-3
                for kwg in ({'max_e_act': mid}, {}, {'min_e_act': mid}, {}, {'min_e_act': e_acts[0] - 1.0, 'max_e_act': e_acts[0] - 0.5}, {}):
                    d.call(o, 'to_graph', **kwg)
                d.call(o, 'rates', 2)
                d.call(o, 'to_graph')
            for args in ((), (3.3,), (), (5.1,), (1.0,), ()):
                d.call(o, 'collective', *args)
    if b % 4 == 1:
        # directed: a trajectory is analysed, extended in place, and analysed again through a NEW metrics object; the recomputation it is
        # compared with runs on an independent copy of the extended data (a value remembered for the shorter trajectory, by whatever
        # object, must not be served)
        from gemdat import Trajectory
        w = gen.SiteWorld(rng, 'tric', 'pmg', N=32, n_sites=3, radius=1.0, inner_fraction=1.0)
        ta = w.trajectory(gen.random_history(rng, 9, 2, 3, p_stay=0.5, inner=False))
        tb = w.trajectory(gen.random_history(rng, 7, 2, 3, p_stay=0.5, inner=False))
        if [str(x) for x in ta.species] == [str(x) for x in tb.species]:
            oa = d.create(ta)
            kinds[oa] = 'X'
            om0 = d.create(TrajectoryMetrics(ta), parents=[oa])
            kinds[om0] = 'X'
            for name in ('speed', 'amplitudes', 'vibration_amplitude'):
                d.call(om0, name)
            ta.distances_from_base_position(), ta.mean_squared_displacement()
            ta.extend(tb)
            ref = Trajectory(species=ta.species, coords=np.array(ta.positions), lattice=ta.get_lattice(), time_step=ta.time_step,
                             metadata=dict(ta.metadata))
            om1 = d.create(TrajectoryMetrics(ta), parents=[oa])
            kinds[om1] = 'X'
            mref = TrajectoryMetrics(ref)
            for name, kw in (('speed', {}), ('tracer_diffusivity', {'dimensions': 3}), ('amplitudes', {}), ('particle_density', {})):
                got = canon(getattr(d.objs[om1], name)(**kw))
                fresh = canon(getattr(mref, name)(**kw))
                d.recs.append({'b': d.b, 'act': 'Call', 'o': om1, 'm': name, 'x': 'after-extend vs independent copy',
                               'rtag': d.tag_of(got), 'ftag': d.tag_of(fresh)})
            del ref, mref, ta, tb
            d.drop(om0)
    for _ in range(n_steps):
        live = list(d.objs)
        r = rng.random()
        if not live or (r < 0.1 and len(live) < n_objects + 6):
            q = new_chain()
            if q:
                kinds[q[0]], kinds[q[1]], kinds[q[2]] = 'T', 'J', 'M'
            continue
        o = live[int(rng.integers(0, len(live)))]
        k = kinds[o]
        if k == 'X' and r < 0.75:
            continue
        if r < 0.75:
            try:
                if k == 'T':
                    d.call(o, str(rng.choice(['matrix', 'states_next', 'states_prev'])))
                elif k == 'J' and rng.random() < 0.12:
                    # a consumer of the memoised values: the plotting front-ends read matrix()/collective()/... of the object.
                    # Whatever they do with the values, later calls must still equal an uncached recomputation.
                    name = str(rng.choice(['plot_jumps_3d', 'plot_jumps_vs_distance', 'plot_jumps_vs_time', 'plot_collective_jumps']))
                    backend = str(rng.choice(['plotly', 'matplotlib']))
                    try:
                        fig = getattr(d.objs[o], name)(backend=backend)
                        if backend == 'matplotlib':
                            import matplotlib.pyplot as plt
                            plt.close('all')
                        del fig
                    except Exception:       # noqa -- a plot that cannot be drawn for a tiny system is not C20's business
                        pass
                    d.call(o, 'matrix')
                elif k == 'J':
                    c = int(rng.integers(0, 7))
                    if c == 0:
                        d.call(o, 'matrix')
                    elif c == 1:
                        d.call(o, 'counter')
                    elif c == 2:
                        d.call(o, 'jump_diffusivity', int(rng.integers(1, 4)))
                    elif c == 3:
                        if rng.random() < 0.3:
                            d.call(o, 'collective')                 # defaults
                        else:
                            d.call(o, 'collective', float(rng.choice([1.0, 3.3, 5.1])))
                        if rng.random() < 0.5 and len(d.objs) < n_objects + 8:
                            # the user keeps a Collective: an owner of memoised methods itself (weak back-reference to its Jumps)
                            # built directly (a value returned by the memoised Jumps.collective is legitimately held by the cache)
                            from gemdat.collective import Collective
                            jj = d.objs[o]
                            oc = d.create(Collective(jumps=jj, sites=jj.sites, lattice=jj.trajectory.get_lattice(),
                                                     max_steps=int(rng.integers(1, 6)), max_dist=float(rng.choice([1.0, 3.3, 5.1]))),
                                          parents=[o])
                            kinds[oc] = 'C'
                            del jj          # the driver itself must not keep the owner alive
                    elif c == 4:
                        thr = float(rng.choice([0.05, 0.1, 0.15, 0.2, 0.3]))
                        form = int(rng.integers(0, 4))
                        if form == 0:
                            d.call(o, 'to_graph')
                        elif form == 1:
                            d.call(o, 'to_graph', max_e_act=thr)       # later optional parameter by keyword only
                        elif form == 2:
                            d.call(o, 'to_graph', min_e_act=thr)
                        else:
                            d.call(o, 'to_graph', None, thr)
                    elif rng.random() < 0.5:
                        d.call(o, '_counter')
                    else:
                        # more parts than there are events: the documented ValueError, through the memoised methods
                        d.call(o, str(rng.choice(['rates', 'activation_energies'])), int(rng.choice([2, 3, 500, 1000])))
                elif k == 'M':
                    c = int(rng.integers(0, 9))
                    if c == 0:
                        d.call(o, 'speed')
                    elif c == 1:
                        d.call(o, 'tracer_diffusivity', dimensions=int(rng.integers(1, 4)))
                    elif c == 2:
                        d.call(o, 'particle_density')
                    elif c == 3:
                        d.call(o, 'amplitudes')
                    elif c == 4:
                        d.call(o, 'vibration_amplitude')
                    elif c == 5:
                        d.call(o, 'attempt_frequency')
                    elif c == 6:
                        d.call(o, 'mol_per_liter')
                    elif c == 7:
                        d.call(o, 'tracer_conductivity', z_ion=int(rng.integers(1, 3)), dimensions=int(rng.integers(1, 4)))
                    else:
                        d.call(o, 'tracer_diffusivity_center_of_mass', dimensions=int(rng.integers(1, 4)))
                elif k == 'C':
                    d.call(o, str(rng.choice(['site_pair_count_matrix', 'multiple_collective', 'site_pair_count_matrix_labels'])))
                elif k == 'R':
                    # the convenience entry points on the trajectory itself (not memoised: nothing to compare, but whatever they
                    # create must not outlive their trajectory's users)
                    t_ = d.objs[o]
                    m_ = t_.metrics()
                    m_.speed(), m_.particle_density()
                    t_.mean_squared_displacement()
                    del t_, m_
            except (ValueError, IndexError):
                pass
        elif r < 0.92:
            d.drop(o)
            if rng.random() < 0.5:
                d.collect()
        else:
            d.collect()
    for o in list(d.objs):
        d.drop(o)
    d.collect()
    return d


def crowd_behaviour(b, rng, n_live=140):
    """More live objects than the cache size (128): eviction while all owners are alive."""
    Probe = probe_class()
    from gemdat.caching import weak_lru_cache

    class Big:
        def __init__(self, data):
            self.data = data

        @weak_lru_cache()
        def val(self):
            return ('big', self.data)
    d = Driver(b)
    ids = [d.create(Big((b, i))) for i in range(n_live)]
    for rnd in range(3):
        for o in (ids if rnd != 1 else ids[::-1]):
            if o in d.objs:
                d.call(o, 'val')
        for o in ids[rnd::7]:
            if o in d.objs:
                d.drop(o)
        d.collect()
        for i in range(10):
            ids.append(d.create(Big((b, 'n', rnd, i))))
    for o in list(d.objs):
        d.drop(o)
    d.collect()
    return d
