#!/venv/bin/python
"""Entry point: check.py Cxx [--tier quick|thorough] [--replay file]

exit 0: property held on everything explored (KNOWN-FINDING lines possible)
exit 1: VIOLATION property=<id> replay=<path> printed
exit 2: machinery failure (never a VIOLATION line)
"""
import argparse
import importlib
import json
import os
import sys
import traceback

os.environ.setdefault('PYTHONHASHSEED', '0')
sys.path.insert(0, os.path.dirname(os.path.abspath(__file__)))


def main():
    ap = argparse.ArgumentParser()
    ap.add_argument('prop')
    ap.add_argument('--tier', default=os.environ.get('VERIF_TIER', 'quick'), choices=['quick', 'thorough'])
    ap.add_argument('--seed', type=int, default=int(os.environ.get('VERIF_SEED', '0') or 0))
    ap.add_argument('--replay', default=None)
    a = ap.parse_args()
    from harness import core
    if a.replay:
        d = json.load(open(a.replay))
        a.seed, a.tier = int(d.get('seed', a.seed)), d.get('tier', a.tier)
        print(f'replaying {a.replay}: re-running {a.prop} with seed={a.seed} tier={a.tier}')
    rep = core.Report(a.prop, a.tier, a.seed)
    mod = importlib.import_module(f'harness.props.{a.prop.lower()}')
    return core.run_and_finish(mod.run, rep)


if __name__ == '__main__':
    sys.exit(main())
