#!/venv/bin/python
"""Entry point: check.py Cxx [--tier quick|thorough] [--replay file]

exit 0: property held on everything explored (KNOWN-FINDING lines possible)
exit 1: VIOLATION property=<id> replay=<path> printed
exit 2: machinery failure (never a VIOLATION line)
"""
import argparse
import importlib
import json
import os
import sys
import traceback

os.environ.setdefault('PYTHONHASHSEED', '0')
sys.path.insert(0, os.path.dirname(os.path.abspath(__file__)))


def main():
    ap = argparse.ArgumentParser()
    ap.add_argument('prop')
    ap.add_argument('--tier', default=os.environ.get('VERIF_TIER', 'quick'), choices=['quick', 'thorough'])
    ap.add_argument('--seed', type=int, default=int(os.environ.get('VERIF_SEED', '0') or 0))
    ap.add_argument('--replay', default=None)
    a = ap.parse_args()
    from harness import core
    if a.replay:
        d = json.load(open(a.replay))
        a.seed, a.tier = int(d.get('seed', a.seed)), d.get('tier', a.tier)
        print(f'replaying {a.replay}: re-running {a.prop} with seed={a.seed} tier={a.tier}')
    rep = core.Report(a.prop, a.tier, a.seed)
    try:
        mod = importlib.import_module(f'harness.props.{a.prop.lower()}')
        mod.run(rep)
        return rep.finish()
    except core.Machinery as e:
        print(f'MACHINERY-FAILURE property={a.prop}: {e}', file=sys.stderr)
        return 2
    except Exception as e:
        # An exception raised INSIDE the tree under test on an input of the property's domain means the promised result
        # was not produced: that is a violation, not a machinery failure (API-contract exceptions are handled by the drivers).
        src = os.path.realpath(os.environ.get('GEMDAT_SRC', '/repo/src'))
        frames = traceback.extract_tb(e.__traceback__)
        inside = [f for f in frames if os.path.realpath(f.filename).startswith(src + os.sep)]
        if inside:
            tb = ''.join(traceback.format_exception(type(e), e, e.__traceback__))
            rep.violation({'kind': 'exception', 'clause': f'code-under-test-raised:{type(e).__name__}', 'where': f'{inside[-1].filename}:{inside[-1].lineno}',
                           'traceback': tb[-3000:]})
            if not rep.samples:
                rep.sample({'note': 'run aborted by an exception raised in the code under test'})
            return rep.finish()
        traceback.print_exc()
        print(f'MACHINERY-FAILURE property={a.prop}: unexpected exception in harness', file=sys.stderr)
        return 2


if __name__ == '__main__':
    sys.exit(main())
